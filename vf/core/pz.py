"""Helpers used inside worker processes to drive py7zr at its public boundary."""
import contextlib
import io
import os
import shutil
import tempfile
import zlib

import py7zr
from py7zr.io import BytesIOFactory, Py7zIO, WriterFactory


def crc(b):
    return zlib.crc32(b) & 0xFFFFFFFF


def exc_sig(e: BaseException) -> str:
    return "%s: %s" % (type(e).__name__, str(e)[:200])


class CollectIO(Py7zIO):
    def __init__(self, name, log=None):
        self.name = name
        self.buf = bytearray()
        self.log = log

    def write(self, s):
        self.buf += s
        if self.log is not None:
            self.log.append(("w", self.name, len(s)))
        return len(s)

    def read(self, size=None):
        return b""

    def seek(self, offset, whence=0):
        return 0

    def flush(self):
        pass

    def size(self):
        return len(self.buf)


class CollectFactory(WriterFactory):
    """WriterFactory that keeps every created product (also repeated creations of one name)."""

    def __init__(self):
        self.created = []  # (name, CollectIO) in creation order
        self.log = []

    def create(self, filename):
        io_ = CollectIO(filename, self.log)
        self.created.append((filename, io_))
        self.log.append(("c", filename, 0))
        return io_

    def as_dict(self):
        return {n: bytes(o.buf) for n, o in self.created}


def read_mem(src, password=None, **kw):
    """Open src (path or bytes) and extract everything through a WriterFactory.
    Returns (names, {name: bytes})."""
    f = CollectFactory()
    if isinstance(src, (bytes, bytearray)):
        src = io.BytesIO(bytes(src))
    with py7zr.SevenZipFile(src, "r", password=password, **kw) as z:
        names = z.getnames()
        z.extractall(factory=f)
    return names, f.as_dict()


def _scratch_base(big=False):
    """tmpfs is an order of magnitude faster for the metadata-heavy workloads (C03: >100k extractions);
    cases that write gigabytes (C20) stay on the ordinary temp dir."""
    base = os.environ.get("VF_SCRATCH")
    if base:
        return base
    if not big and os.path.isdir("/dev/shm") and os.access("/dev/shm", os.W_OK):
        return "/dev/shm"
    return None


@contextlib.contextmanager
def scratch(prefix="vf-", big=False):
    # the run's tag in the name: what a killed worker leaves behind is swept by the run that started it (sweep_scratch)
    tag = os.environ.get("VF_RUN_TAG")
    d = tempfile.mkdtemp(prefix=prefix + (("r%s-" % tag) if tag else ""), dir=_scratch_base(big))
    try:
        yield d
    finally:
        shutil.rmtree(d, ignore_errors=True)


def sweep_scratch(tag):
    """Remove the scratch directories of this run that workers killed by the watchdog (or by a codec library) left behind."""
    import glob

    n = 0
    for base in {_scratch_base(False) or tempfile.gettempdir(), _scratch_base(True) or tempfile.gettempdir()}:
        for d in glob.glob(os.path.join(base, "vf-*r%s-*" % tag)):
            for dp, dns, fns in os.walk(d):
                try:
                    os.chmod(dp, 0o700)
                except OSError:
                    pass
            shutil.rmtree(d, ignore_errors=True)
            n += 1
    return n


def walk_tree(root):
    """Path -> record for everything under root (lstat based)."""
    out = {}
    for dp, dns, fns in os.walk(root, followlinks=False):
        for n in dns + fns:
            p = os.path.join(dp, n)
            rel = os.path.relpath(p, root)
            st = os.lstat(p)
            import stat as S

            if S.S_ISLNK(st.st_mode):
                out[rel] = {"kind": "link", "target": os.readlink(p)}
            elif S.S_ISDIR(st.st_mode):
                out[rel] = {"kind": "dir", "mode": S.S_IMODE(st.st_mode), "mtime_ns": st.st_mtime_ns}
            elif S.S_ISREG(st.st_mode):
                with open(p, "rb") as f:
                    data = f.read()
                out[rel] = {"kind": "file", "mode": S.S_IMODE(st.st_mode), "mtime_ns": st.st_mtime_ns, "size": st.st_size, "crc": crc(data), "data": data}
            else:
                out[rel] = {"kind": "other"}
    return out
