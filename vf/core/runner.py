"""Parent side: a pool of worker subprocesses (never multiprocessing.Pool), a wall-clock
watchdog that classifies rather than decides, and result collection.

Classification of a case whose wall-clock watchdog fired:
  * CPU time of the worker's process tree did not advance over 3 samples -> "deadlock"
  * it advanced                                                        -> "wall" (inconclusive by default)
A worker that died reports "crash:<signal or status>".
The property module's on_abnormal(case, kind, info) maps these to a verdict; the default is
inconclusive (never 'violated').
"""
import json
import os
import queue
import signal
import subprocess
import sys
import threading
import time

PY = sys.executable
ROOT = os.path.dirname(os.path.dirname(os.path.dirname(os.path.abspath(__file__))))


IDLE_S = float(os.environ.get("VF_IDLE_S", "25"))


def _tree_cpu(pid):
    """utime+stime ticks of pid and all descendants."""
    total = 0
    seen = set()
    stack = [pid]
    while stack:
        p = stack.pop()
        if p in seen:
            continue
        seen.add(p)
        try:
            with open("/proc/%d/stat" % p) as f:
                s = f.read()
            rest = s[s.rindex(")") + 2 :].split()
            total += int(rest[11]) + int(rest[12])
            for t in os.listdir("/proc/%d/task" % p):
                try:
                    with open("/proc/%d/task/%s/children" % (p, t)) as f:
                        stack.extend(int(x) for x in f.read().split())
                except OSError:
                    pass
        except (OSError, ValueError):
            pass
    return total


class _Worker:
    def __init__(self, modname, env):
        self.modname = modname
        self.env = env
        self.proc = None
        self.start()

    def start(self):
        self.proc = subprocess.Popen(
            [PY, "-u", "-m", "vf.core.worker", self.modname],
            stdin=subprocess.PIPE, stdout=subprocess.PIPE, stderr=subprocess.PIPE,
            cwd=ROOT, env=self.env, text=True, bufsize=1, start_new_session=True,
        )
        self.errbuf = []
        t = threading.Thread(target=self._drain, args=(self.proc, self.errbuf), daemon=True)
        t.start()

    @staticmethod
    def _drain(proc, buf):
        try:
            for line in proc.stderr:
                buf.append(line)
                if len(buf) > 400:
                    del buf[:200]
        except Exception:
            pass

    def kill(self):
        try:
            os.killpg(self.proc.pid, signal.SIGKILL)
        except (ProcessLookupError, PermissionError):
            pass
        try:
            self.proc.kill()
        except Exception:
            pass
        try:
            self.proc.wait(timeout=10)
        except Exception:
            pass
        for f in (self.proc.stdin, self.proc.stdout):
            try:
                f.close()
            except Exception:
                pass

    def run(self, seq, case, timeout):
        """Returns (result dict | None, abnormal kind | None, info)."""
        if self.proc.poll() is not None:
            self.kill()
            self.start()
        try:
            self.proc.stdin.write(json.dumps({"seq": seq, "case": case}) + "\n")
            self.proc.stdin.flush()
        except (BrokenPipeError, OSError):
            self.kill()
            self.start()
            self.proc.stdin.write(json.dumps({"seq": seq, "case": case}) + "\n")
            self.proc.stdin.flush()
        box = {}

        def reader():
            try:
                while True:
                    line = self.proc.stdout.readline()
                    if not line:
                        box["eof"] = True
                        return
                    if line.startswith("R "):
                        box["res"] = json.loads(line[2:])
                        return
            except Exception as e:  # pragma: no cover
                box["err"] = repr(e)

        th = threading.Thread(target=reader, daemon=True)
        th.start()
        # wait for the answer; a worker whose whole process tree has used no CPU at all for IDLE_S seconds is not going to
        # give one (a lock nobody holds, a codec library's threads waiting for each other): no need to sit out the wall-clock
        # limit, which is sized for the slowest honest case
        deadline = time.monotonic() + timeout
        last_cpu, idle_since = _tree_cpu(self.proc.pid), None
        while th.is_alive() and time.monotonic() < deadline:
            th.join(2.0)
            if not th.is_alive():
                break
            cpu = _tree_cpu(self.proc.pid)
            if cpu <= last_cpu:
                idle_since = idle_since or time.monotonic()
                if time.monotonic() - idle_since >= IDLE_S:
                    break
            else:
                last_cpu, idle_since = cpu, None
        if "res" in box:
            if box["res"].pop("_fatal", False):
                # the worker exits after reporting (spinning threads cannot be stopped): start a fresh one
                self.kill()
                self.start()
            return box["res"], None, ""
        if th.is_alive():
            # watchdog fired: classify
            samples = []
            for _ in range(3):
                samples.append(_tree_cpu(self.proc.pid))
                time.sleep(0.4)
            samples.append(_tree_cpu(self.proc.pid))
            # ask for stacks before killing
            try:
                os.kill(self.proc.pid, signal.SIGABRT if False else signal.SIGUSR1)
            except Exception:
                pass
            time.sleep(0.2)
            kind = "deadlock" if samples[-1] - samples[0] <= 1 else "wall"
            info = "".join(self.errbuf[-200:])
            self.kill()
            self.start()
            return None, kind, info
        # EOF: worker died
        rc = None
        try:
            rc = self.proc.wait(timeout=5)
        except Exception:
            pass
        info = "".join(self.errbuf[-200:])
        self.kill()
        self.start()
        if rc is not None and rc < 0:
            try:
                name = signal.Signals(-rc).name
            except ValueError:
                name = str(-rc)
            return None, "crash:%s" % name, info
        return None, "crash:exit%s" % rc, info


def blocked_inside(info):
    """Innermost Python frame of the stacks the worker dumped -> (file, line, function, enclosing class).
    A call that blocks with no CPU progress while that frame is the innermost one is blocked below it, in
    native code the frame called."""
    import re

    frames = re.findall(r'File "([^"]+)", line (\d+) in (\S+)', info or "")
    if not frames:
        return None
    # faulthandler prints most recent call first; the dump taken last is the most recent state
    blocks = re.split(r"(?:Current thread|Thread) 0x[0-9a-f]+ \(most recent call first\):", info)
    last = blocks[-1] if len(blocks) > 1 else info
    m = None
    for m in re.finditer(r'File "([^"]+)", line (\d+) in (\S+)', last):
        # the harness's own pass-through wrappers at a library boundary (monitors counting threads, recording calls) are not the
        # code that is blocked: look below them
        if m.group(1).startswith(os.path.join(ROOT, "vf") + os.sep) and m.group(3) in ("decode", "decompress"):
            continue
        break
    else:
        m = None
    if not m:
        return None
    fn, line, func = m.group(1), int(m.group(2)), m.group(3)
    cls = None
    try:
        src = open(fn, encoding="utf-8").read().splitlines()
        for i in range(min(line, len(src)) - 1, -1, -1):
            mm = re.match(r"class (\w+)", src[i])
            if mm:
                cls = mm.group(1)
                break
            if re.match(r"(def|async def) ", src[i]):
                break
    except OSError:
        pass
    return fn, line, func, cls


def library_deadlock_key(info):
    """Mechanism key when the blocked call is a third-party codec object's own method (py7zr's frame is the
    thin wrapper class around it), else None."""
    b = blocked_inside(info)
    if not b:
        return None
    fn, line, func, cls = b
    if fn.endswith("/py7zr/compressor.py") and cls == "PpmdDecompressor" and func == "decompress":
        return "codec-library/pyppmd-decoder-deadlock"
    return None



def run_cases(modname, cases, mod, workers=None, progress=True, budget_s=None):
    """Run all cases; returns list of (case, result)."""
    workers = workers or int(os.environ.get("VF_WORKERS", getattr(mod, "WORKERS", 16)))
    timeout = float(getattr(mod, "CASE_TIMEOUT", 120.0))
    env = dict(os.environ)
    env["PYTHONHASHSEED"] = "0"
    env["PYTHONDONTWRITEBYTECODE"] = "1"
    env["PYTHONPATH"] = ROOT + (os.pathsep + env["PYTHONPATH"] if env.get("PYTHONPATH") else "")
    env["PY7ZR_VERIF"] = "1"
    q = queue.Queue()
    n = 0
    for i, c in enumerate(cases):
        q.put((i, c))
        n += 1
    results = [None] * n
    lock = threading.Lock()
    done = [0]
    t_start = time.monotonic()
    stop = threading.Event()

    def loop():
        w = _Worker(modname, env)
        try:
            while not stop.is_set():
                try:
                    i, c = q.get_nowait()
                except queue.Empty:
                    return
                if budget_s is not None and time.monotonic() - t_start > budget_s:
                    results[i] = (c, {"verdict": "skipped", "key": "time-budget", "what": "not run: tier time budget used up"})
                    continue
                res, kind, info = w.run(i, c, float(c.get("_timeout", timeout)) if isinstance(c, dict) else timeout)
                if res is None and (kind.startswith("crash") or kind == "wall"):
                    # a worker that dies or stalls under load may do so because of an earlier case (heap
                    # damage in a codec library) or of the load: the verdict needs the case to fail again,
                    # alone, in a fresh worker
                    first = kind
                    res, kind, info2 = w.run(i, c, float(c.get("_timeout", timeout)) if isinstance(c, dict) else timeout)
                    if res is not None:
                        res.setdefault("obs", {})["abnormal_end_not_reproduced:" + first.split(":")[0]] = 1
                    else:
                        info = info2 or info
                reproduced = None
                if res is None and kind == "deadlock":
                    # the witness (no CPU progress, stacks) stands either way; what the second run, alone in a
                    # fresh worker, decides is whether the block needs the history of that worker process
                    # (a codec library's leaked threads from earlier hostile inputs) or only this input
                    res2, kind2, _ = w.run(i, c, float(c.get("_timeout", timeout)) if isinstance(c, dict) else timeout)
                    reproduced = res2 is None and kind2 == "deadlock"
                if res is None:
                    if hasattr(mod, "on_abnormal"):
                        res = mod.on_abnormal(c, kind, info)
                    if res is None:
                        res = {"verdict": "inconclusive", "key": kind, "what": "worker ended abnormally (%s)" % kind}
                    res.setdefault("detail", {})["stderr_tail"] = info[-3000:]
                    res["abnormal"] = kind
                    valid_input = res.pop("valid_input", False)
                    if reproduced is not None:
                        res.setdefault("obs", {})["deadlock_reproduced_alone" if reproduced else "deadlock_not_reproduced_alone"] = 1
                    if kind == "deadlock" and res.get("verdict") == "violated" and not (valid_input and reproduced):
                        lk = library_deadlock_key(info)
                        if lk:
                            res["key"] = lk
                            res["what"] = "call blocked for good inside the codec library (no CPU progress; innermost frame %s:%s %s)" % blocked_inside(info)[:3]
                results[i] = (c, res)
                with lock:
                    done[0] += 1
                    if progress and done[0] % max(1, n // 10) == 0:
                        print("  .. %d/%d cases (%.0fs)" % (done[0], n, time.monotonic() - t_start), file=sys.stderr, flush=True)
        finally:
            w.kill()

    threads = [threading.Thread(target=loop, daemon=True) for _ in range(min(workers, max(1, n)))]
    for t in threads:
        t.start()
    for t in threads:
        t.join()
    return [r for r in results if r is not None]
