"""Worker process: runs cases of one property module, one at a time.

Protocol (parent <-> worker): parent writes one JSON case per line to the worker's stdin;
the worker answers on a private pipe (dup of its original stdout) with
    B <case-seq>\n          before the case starts
    R <json result>\n       when it ended
Everything the code under test prints goes to stderr (the parent keeps a tail of it).

Per case the worker arms
  * an ITIMER_PROF CPU-time budget (process CPU, all threads) -> CpuBudget(BaseException):
    load-independent detection of spinning;
  * faulthandler.dump_traceback_later as a last-resort stack dump (the parent's wall watchdog
    decides nothing by itself, see runner.py);
  * RLIMIT_AS as a safety cap.
After a budget hit the worker reports and exits (spinning threads cannot be stopped); the
parent starts a fresh one.
"""
import faulthandler
import gc
import importlib
import json
import os
import resource
import signal
import sys
import time
import traceback


class CpuBudget(BaseException):
    pass


def _on_prof(signum, frame):
    raise CpuBudget()


def rss_peak_kb():
    try:
        with open("/proc/self/status") as f:
            for line in f:
                if line.startswith("VmHWM:"):
                    return int(line.split()[1])
    except OSError:
        pass
    return 0


def rss_now_kb():
    try:
        with open("/proc/self/status") as f:
            for line in f:
                if line.startswith("VmRSS:"):
                    return int(line.split()[1])
    except OSError:
        pass
    return 0


def reset_rss_peak():
    try:
        with open("/proc/self/clear_refs", "w") as f:
            f.write("5")
        return True
    except OSError:
        return False


def setup_repo_path():
    root = os.environ.get("VERIF_REPO")
    if root:
        sys.path.insert(0, root)
    import py7zr

    here = os.path.dirname(os.path.dirname(os.path.abspath(py7zr.__file__)))
    want = os.path.abspath(root) if root else "/repo"
    if os.path.realpath(here) != os.path.realpath(want):
        raise RuntimeError("py7zr imported from %s, expected %s" % (here, want))
    return here


def main():
    # run as `python -m vf.core.worker`: make `import vf.core.worker` resolve to this very module
    # (one CpuBudget class, one signal handler)
    sys.modules.setdefault("vf.core.worker", sys.modules["__main__"])
    try:  # die with the parent (a killed check must not leave spinning workers behind)
        import ctypes

        ctypes.CDLL("libc.so.6", use_errno=True).prctl(1, signal.SIGKILL)
    except Exception:
        pass
    modname = sys.argv[1]
    out = os.fdopen(os.dup(1), "w", buffering=1)
    os.dup2(2, 1)  # whatever the code under test prints must not corrupt the protocol
    sys.stdout = sys.stderr
    sys.dont_write_bytecode = True
    setup_repo_path()
    mod = importlib.import_module("vf.props." + modname)
    as_limit = getattr(mod, "RLIMIT_AS", 6 << 30)
    if as_limit:
        resource.setrlimit(resource.RLIMIT_AS, (as_limit, as_limit))
    if hasattr(mod, "worker_init"):
        mod.worker_init()
    signal.signal(signal.SIGPROF, _on_prof)
    faulthandler.register(signal.SIGUSR1, all_threads=True)
    faulthandler.enable(file=sys.stderr, all_threads=True)  # a fatal signal leaves the Python stacks for the classifiers
    cpu_budget = float(os.environ.get("VF_CPU_BUDGET", getattr(mod, "CPU_BUDGET", 30.0)))
    wall_dump = float(getattr(mod, "CASE_TIMEOUT", 120.0)) * 0.9
    for line in sys.stdin:
        line = line.strip()
        if not line:
            continue
        msg = json.loads(line)
        case = msg["case"]
        seq = msg["seq"]
        out.write("B %d\n" % seq)
        t0 = time.monotonic()
        c0 = time.process_time()
        faulthandler.dump_traceback_later(wall_dump, exit=False)
        fatal = False
        budget = float(case.get("_cpu_budget", cpu_budget)) if isinstance(case, dict) else cpu_budget
        try:
            signal.setitimer(signal.ITIMER_PROF, budget)
            try:
                res = mod.run_case(case)
            finally:
                signal.setitimer(signal.ITIMER_PROF, 0)
        except CpuBudget:
            signal.setitimer(signal.ITIMER_PROF, 0)
            stack = traceback.format_exc(limit=-12)
            res = mod.on_abnormal(case, "cpu-budget", stack) if hasattr(mod, "on_abnormal") else None
            if res is None:
                res = {"verdict": "inconclusive", "key": "cpu-budget", "what": "case exceeded its CPU budget of %.0fs" % budget}
            res.setdefault("detail", {})["stack"] = stack[-3000:]
            fatal = True
        except BaseException as e:  # harness error: never a verdict on py7zr
            signal.setitimer(signal.ITIMER_PROF, 0)
            res = {"verdict": "inconclusive", "key": "harness-error", "what": "%s: %s" % (type(e).__name__, e),
                   "detail": {"trace": traceback.format_exc()[-3000:]}}
            if isinstance(e, (SystemExit, KeyboardInterrupt)):
                fatal = True
        faulthandler.cancel_dump_traceback_later()
        if res.pop("_restart", False):  # the case left threads or other process state behind: next case gets a fresh worker
            fatal = True
        res["wall"] = round(time.monotonic() - t0, 4)
        res["cpu"] = round(time.process_time() - c0, 4)
        res["seq"] = seq
        if fatal:
            res["_fatal"] = True
        try:
            payload = json.dumps(res)
        except (TypeError, ValueError) as e:
            payload = json.dumps({"verdict": "inconclusive", "key": "harness-error", "what": "unserialisable result: %s" % e, "seq": seq})
        out.write("R " + payload + "\n")
        out.flush()
        if fatal:
            os._exit(0)
        gc.collect()




import contextlib  # noqa: E402


@contextlib.contextmanager
def inner_budget(seconds):
    """A nested CPU budget inside a case: raises CpuBudget after `seconds` of process CPU time.
    The outer budget is restored (less what was used) on exit."""
    outer_left, _ = signal.getitimer(signal.ITIMER_PROF)
    t0 = time.process_time()
    signal.setitimer(signal.ITIMER_PROF, seconds)
    try:
        yield
    finally:
        used = time.process_time() - t0
        if outer_left > 0:
            signal.setitimer(signal.ITIMER_PROF, max(0.05, outer_left - used))
        else:
            signal.setitimer(signal.ITIMER_PROF, 0)


if __name__ == "__main__":
    main()
