"""Logical archives + physical layouts for the reference writer (C06, C08, C10, C04/C05 corpus).

A case is {"members": [...recipes...], "features": {...}, "password": str|None}.
`realise(case)` -> (members with bytes, writer layout).  FEATURE_DEFAULTS are the py7zr-like
choices; `ablate` support: reset(case, feature) returns a simpler case.
"""
import copy
import random

from . import basic as G

FEATURE_DEFAULTS = {
    "folders": "single",        # single | multi | per-file
    "chains": None,             # list of ref chain specs per folder; None = LZMA2 everywhere
    "empties": "end",           # end | start | interleaved
    "has_emptyfile": False,
    "has_dir": False,
    "has_symlink": False,
    "numunpack_explicit": False,
    "crc": "sub",               # sub | folder | both | none | partial
    "pack_crc": False,
    "packpos": 0,
    "dummy": None,
    "emptyfile_vec": "auto",
    "attr": "all",              # all | partial | none
    "mtime": "all",             # all | partial | none
    "ctime": False,
    "atime": False,
    "header": "lzma+crc",       # lzma+crc | raw | lzma | copy | aes | lzma+aes
    "nonminimal": 0,
    "explicit_defvec": False,
    "unicode_names": False,
    "dir_attr": True,
    "unix_attr": True,
    "zero_size_stream": False,  # a member that HAS a stream of length 0
    "empty_folder": False,      # a folder with NumUnpackStreams = 0
    "version_minor": 4,
    "trailing": 0,
    "attr_zero": False,         # some members carry a DEFINED attribute word equal to 0
    "no_substreams": False,     # one stream per folder, CRCs at folder level, SubStreamsInfo record left out altogether
    "kind_attr_conflict": False,  # attribute words that say the opposite of the stream flags (dir without 0x10, empty file with 0x10)
    "startpos": False,          # kStartPos (0x18) file property, partially defined
    "dir_slash": False,         # directories stored as 'name/' (libarchive, Java writers)
    "anti_zero": False,         # a kAnti vector with no bit set beside the empty-stream vector
    "archive_props": False,     # an ArchiveProperties record in front of the streams
    "empty_streams_info": False,  # archives without streams still carry '04 00'
    "zstd_frames": False,       # ZStandard streams cut into several frames behind a skippable frame
}

REF_CHAINS = [
    [{"m": "LZMA2"}], [{"m": "LZMA"}], [{"m": "BZip2"}], [{"m": "DEFLATE"}], [{"m": "DEFLATE64"}], [{"m": "COPY"}], [{"m": "ZStandard"}],
    [{"m": "ZStandard", "props5": False}], [{"m": "PPMd"}], [{"m": "Brotli"}],
    [{"m": "BCJ"}, {"m": "LZMA2"}], [{"m": "BCJ"}, {"m": "LZMA"}], [{"m": "ARM"}, {"m": "LZMA2"}], [{"m": "ARMT"}, {"m": "LZMA"}],
    [{"m": "PPC"}, {"m": "LZMA2"}], [{"m": "SPARC"}, {"m": "LZMA2"}], [{"m": "IA64"}, {"m": "LZMA2"}], [{"m": "DELTA", "dist": 4}, {"m": "LZMA2"}],
    [{"m": "DELTA", "dist": 1}, {"m": "LZMA"}], [{"m": "BCJ"}, {"m": "COPY"}], [{"m": "BCJ"}, {"m": "ZStandard"}], [{"m": "ARM"}, {"m": "BZip2"}],
    [{"m": "BCJ"}, {"m": "DEFLATE"}], [{"m": "BCJ"}, {"m": "PPMd"}], [{"m": "BCJ", "newid": True}, {"m": "LZMA2"}], [{"m": "ARM", "newid": True}, {"m": "LZMA"}],
    [{"m": "LZMA2"}, {"m": "7zAES"}], [{"m": "LZMA"}, {"m": "7zAES"}], [{"m": "COPY"}, {"m": "7zAES"}], [{"m": "7zAES"}], [{"m": "BCJ"}, {"m": "LZMA2"}, {"m": "7zAES"}],
    [{"m": "ZStandard"}, {"m": "7zAES"}], [{"m": "DEFLATE"}, {"m": "7zAES", "cycles": 6, "salt": "0102030405060708", "ivlen": 8}],
    [{"m": "BZip2"}, {"m": "7zAES", "ivlen": 16, "salt": "aa"}], [{"m": "DELTA", "dist": 2}, {"m": "LZMA2"}, {"m": "7zAES"}],
]


def chain_label(ch):
    return "+".join(c["m"] + ("(new)" if c.get("newid") else "") for c in ch)


def gen_case(rng: random.Random, max_len=20000, force=None):
    f = dict(FEATURE_DEFAULTS)

    def maybe(p):
        return rng.random() < p

    f["folders"] = rng.choice(["single", "single", "multi", "multi", "per-file"])
    f["empties"] = rng.choice(["end", "start", "interleaved"])
    f["has_emptyfile"] = maybe(0.35)
    f["has_dir"] = maybe(0.35)
    f["has_symlink"] = maybe(0.15)
    f["numunpack_explicit"] = maybe(0.2)
    f["crc"] = rng.choice(["sub", "sub", "folder", "both", "none", "partial"])
    f["pack_crc"] = maybe(0.25)
    f["packpos"] = rng.choice([0, 0, 0, 1, 7, 300])
    f["dummy"] = rng.choice([None, None, 0, 1, 5, 300])
    f["emptyfile_vec"] = rng.choice(["auto", "auto", "always"])
    f["attr"] = rng.choice(["all", "all", "partial", "none"])
    f["mtime"] = rng.choice(["all", "all", "partial", "none"])
    f["ctime"] = maybe(0.2)
    f["atime"] = maybe(0.2)
    f["header"] = rng.choice(["lzma+crc", "lzma+crc", "raw", "lzma", "copy", "aes", "lzma+aes"])
    f["nonminimal"] = rng.choice([0, 0, 0, 1, 2])
    f["explicit_defvec"] = maybe(0.15)
    f["unicode_names"] = maybe(0.3)
    f["dir_attr"] = not maybe(0.25)
    f["unix_attr"] = not maybe(0.3)
    f["zero_size_stream"] = maybe(0.1)
    f["empty_folder"] = maybe(0.08)
    f["version_minor"] = rng.choice([4, 4, 3, 2])
    f["attr_zero"] = maybe(0.2)
    f["no_substreams"] = maybe(0.12)
    f["kind_attr_conflict"] = maybe(0.12)
    f["startpos"] = maybe(0.08)
    f["dir_slash"] = maybe(0.15)
    f["anti_zero"] = maybe(0.1)
    f["archive_props"] = maybe(0.1)
    f["empty_streams_info"] = maybe(0.3)
    f["zstd_frames"] = maybe(0.5)
    if rng.random() < 0.1:
        f["pack_crc"] = "partial"
    if force:
        f.update(force)
    nstream = rng.choice([1, 2, 3, 4, 6])
    members = []
    names = G.names(rng, nstream + 4, prefix_free=True, fs_safe=True, max_depth=3, flavours=(None if f["unicode_names"] else ["ascii"]))
    if not f["unicode_names"]:
        def clean(n):
            comps = []
            for c in n.split("/"):
                c = "".join(ch for ch in c if ch.isascii() and (ch.isalnum() or ch in "._-")).strip(".")
                comps.append(c or "x")
            return "/".join(comps)

        names = ["f%d_%s" % (i, clean(n)) for i, n in enumerate(names)]
    it = iter(names)
    for i in range(nstream):
        members.append({"name": next(it), "kind": "file", "content": G.content_recipe(rng, max_len=max_len)})
    if f["zero_size_stream"]:
        members[rng.randrange(len(members))]["content"]["len"] = 0
    else:
        for m in members:
            if m["content"]["len"] == 0:
                m["content"]["len"] = 1
    if f["has_symlink"]:
        tgt = members[0]["name"]
        members.append({"name": next(it), "kind": "symlink", "target": tgt.split("/")[-1] if "/" not in tgt else tgt})
    extras = []
    if f["has_emptyfile"]:
        extras.append({"name": next(it), "kind": "emptyfile"})
    if f["has_dir"]:
        extras.append({"name": next(it), "kind": "dir"})
    if f["empties"] == "start":
        members = extras + members
    elif f["empties"] == "interleaved" and extras:
        for e in extras:
            members.insert(rng.randint(1, max(1, len(members) - 1)), e)
    else:
        members = members + extras
    nfold = 1 if f["folders"] == "single" else (min(3, nstream + (1 if f["has_symlink"] else 0)) if f["folders"] == "multi" else nstream + (1 if f["has_symlink"] else 0))
    f["chains"] = [rng.choice(REF_CHAINS) for _ in range(nfold + 1)]
    case = {"members": members, "features": f, "password": None, "seed": rng.getrandbits(32)}
    _fix_password(case, rng)
    return case


def _fix_password(case, rng=None):
    f = case["features"]
    needs = f["header"] in ("aes", "lzma+aes") or any(c["m"] == "7zAES" for ch in (f["chains"] or []) for c in ch)
    if needs and case["password"] is None:
        case["password"] = (rng.choice(G.PASSWORDS) if rng else "secret")
    if not needs:
        case["password"] = None


def non_default_features(case):
    f = case["features"]
    out = []
    for k, v in FEATURE_DEFAULTS.items():
        if k == "chains":
            for i, ch in enumerate(f["chains"] or []):
                if chain_label(ch) != "LZMA2":
                    out.append("chain%d" % i)
        elif f.get(k, v) != v:
            out.append(k)
    return out


def reset(case, feat):
    """A copy of the case with one feature set to its default (py7zr-like) value."""
    c = copy.deepcopy(case)
    f = c["features"]
    if feat.startswith("chain") and feat[5:].isdigit():
        f["chains"][int(feat[5:])] = [{"m": "LZMA2"}]
    else:
        f[feat] = FEATURE_DEFAULTS[feat]
    m = c["members"]
    if feat == "has_emptyfile":
        c["members"] = [x for x in m if x["kind"] != "emptyfile"]
    elif feat == "has_dir":
        c["members"] = [x for x in m if x["kind"] != "dir"]
    elif feat == "has_symlink":
        for x in m:
            if x["kind"] == "symlink":
                x["kind"] = "file"
                x["content"] = {"len": 9, "tex": "text", "seed": 1}
    elif feat == "empties":
        c["members"] = [x for x in m if x["kind"] in ("file", "symlink")] + [x for x in m if x["kind"] not in ("file", "symlink")]
    elif feat == "zero_size_stream":
        for x in m:
            if x["kind"] == "file" and x["content"]["len"] == 0:
                x["content"]["len"] = 3
    elif feat == "unicode_names":
        for i, x in enumerate(m):
            x["name"] = "m%d" % i
            if x["kind"] == "symlink":
                x["target"] = "m0"
    _fix_password(c)
    return c


FT_BASE = 116444736000000000  # 1970-01-01 as FILETIME


def realise(case):
    """-> (members for ref writer, layout dict)"""
    f = case["features"]
    r = random.Random(case.get("seed", 0))
    members = []
    n = len(case["members"])
    for i, m in enumerate(case["members"]):
        d = {"name": m["name"] + ("/" if (m["kind"] == "dir" and f.get("dir_slash")) else ""), "kind": m["kind"]}
        if m["kind"] == "file":
            d["data"] = G.materialise(m["content"])
        elif m["kind"] == "symlink":
            d["data"] = m["target"].encode("utf-8")

        def pick(mode):
            if mode == "all" or mode is True:
                return True
            if mode == "none" or mode is False:
                return False
            return i % 2 == 0 if n > 1 else True

        base = FT_BASE + r.randint(0, 4_000_000_000) * 10_000_000 + r.randint(0, 9_999_999)
        d["mtime"] = base if pick(f["mtime"]) else None
        d["ctime"] = base - 12345 if f["ctime"] and pick("partial" if f["mtime"] == "partial" else "all") else None
        d["atime"] = base + 777 if f["atime"] else None
        attr = None
        if pick(f["attr"]):
            if m["kind"] == "dir":
                attr = 0x10 | ((0x8000 | ((0o040000 | r.choice([0o755, 0o700, 0o775])) << 16)) if f["unix_attr"] else 0)
                if not f["dir_attr"]:
                    attr = None
                elif f.get("kind_attr_conflict"):
                    attr = (attr & ~0x10) | 0x20  # the stream flags make it a directory, not this word
            elif m["kind"] == "emptyfile" and f.get("kind_attr_conflict"):
                attr = 0x10 | 0x20  # flagged as an empty file: a file, whatever this word says
            elif m["kind"] == "symlink":
                attr = 0x20 | 0x400 | 0x8000 | ((0o120000 | 0o777) << 16)
            else:
                attr = 0x20 | ((0x8000 | ((0o100000 | r.choice([0o644, 0o600, 0o755, 0o444])) << 16)) if f["unix_attr"] else 0)
                if f.get("attr_zero") and i % 2 == 1:
                    attr = 0
        if m["kind"] == "symlink" and attr is None:
            attr = 0x20 | 0x400 | 0x8000 | ((0o120000 | 0o777) << 16)  # a symlink is only a symlink through its attribute word
        d["attributes"] = attr
        members.append(d)
    streams = [m for m in members if m["kind"] in ("file", "symlink")]
    ns = len(streams)
    chains = f["chains"] or [[{"m": "LZMA2"}]]
    if f["folders"] == "single":
        parts = [ns]
    elif f["folders"] == "per-file":
        parts = [1] * ns
    else:
        k = min(3, ns)
        parts = [ns // k + (1 if i < ns % k else 0) for i in range(k)]
    folders = []
    for i, cnt in enumerate(parts):
        ch_ = chains[i % len(chains)]
        if f.get("zstd_frames"):
            ch_ = [dict(c, frames=3) if c["m"] == "ZStandard" else c for c in ch_]
        folders.append({"n": cnt, "chain": ch_, "crc": f["crc"]})
    if f["empty_folder"]:
        folders.insert(r.randint(0, len(folders)), {"n": 0, "chain": [{"m": "COPY"}], "crc": "none"})
    no_sub = bool(f.get("no_substreams")) and folders and all(fo["n"] == 1 for fo in folders)
    if no_sub:
        for fo in folders:
            if fo["crc"] != "none":
                fo["crc"] = "folder"
    layout = {
        "folders": folders,
        "omit_numunpack": not f["numunpack_explicit"],
        "pack_crc": f["pack_crc"],
        "packpos": f["packpos"],
        "dummy": f["dummy"],
        "emptyfile_vec": f["emptyfile_vec"],
        "header": f["header"],
        "nonminimal": f["nonminimal"],
        "explicit_defvec": f["explicit_defvec"],
        "version": (0, f["version_minor"]),
        "trailing": f["trailing"],
        "substreams": not no_sub,
        "startpos": bool(f.get("startpos")),
        "anti_zero": bool(f.get("anti_zero")),
        "archive_props": bool(f.get("archive_props")),
        "empty_streams_info": bool(f.get("empty_streams_info")),
    }
    return members, layout
