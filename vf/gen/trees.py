"""Directory-tree generator (C02, C07, C08, C15, C19) and on-disk materialisation."""
import os
import posixpath
import random

from . import basic as G


def tree(rng: random.Random, max_entries=14, max_depth=5, links=True, small_alphabet=False, max_len=20000, modes=True):
    """Returns a list of entries (parents before children)."""
    entries = []
    dirs = [""]
    depth = {"": 0}
    used = set()
    n = rng.randint(1, max_entries)

    def fresh_name(parent):
        for _ in range(50):
            if small_alphabet:
                c = rng.choice(["a", "b", "t", "ab"])
            else:
                c = G.component(rng, rng.choice(["ascii", "ascii", "space", "bmp", "combining", "astral", "special", "ctrl"]), maxlen=8)
            if c in (".", "..") or "/" in c or "\x00" in c or len(c.encode("utf-8", "surrogatepass")) > 200:
                continue
            p = posixpath.join(parent, c) if parent else c
            if p not in used and len(p.encode("utf-8")) < 700:
                used.add(p)
                return p
        return None

    for _ in range(n):
        parent = rng.choice(dirs)
        r = rng.random()
        p = fresh_name(parent)
        if p is None:
            continue
        mt = rng.choice([
            rng.randint(0, 4102444800) * 10**9 + rng.randint(0, 9999999) * 100,   # 1970..2100, 100ns grid
            rng.randint(1_000_000_000, 1_900_000_000) * 10**9 + rng.randint(0, 999_999_999),
            rng.randint(0, 4102444800) * 10**9,
            # the ends of the quantifier's range and other boundary instants
            rng.choice([0, 100, 1000, 999_999_900, 10**9, 4102444800 * 10**9, 4102444800 * 10**9 - 100, 2**31 * 10**9, (2**31 - 1) * 10**9 + 999_999_900, 2**32 * 10**9,
                        86400 * 10**9, 951782400 * 10**9, 1_000_000_000 * 10**9]),
        ])
        if r < 0.3 and depth[parent] < max_depth - 1:
            entries.append({"path": p, "kind": "dir", "mode": rng.choice([0o755, 0o700, 0o500, 0o555, 0o775, 0o777, 0o750]) if modes else 0o755, "mtime_ns": mt})
            dirs.append(p)
            depth[p] = depth[parent] + 1
        elif r < 0.85 or not links:
            entries.append({"path": p, "kind": "file", "mode": rng.choice([0o644, 0o600, 0o400, 0o444, 0o755, 0o777, 0o640, 0o664, 0o500]) if modes else 0o644,
                            "mtime_ns": mt, "content": G.content_recipe(rng, max_len=max_len)})
        else:
            # relative link to something that already exists inside the tree
            cands = [e for e in entries if e["kind"] in ("file", "dir")]
            if not cands:
                entries.append({"path": p, "kind": "file", "mode": 0o644, "mtime_ns": mt, "content": G.content_recipe(rng, max_len=100)})
                continue
            tgt = rng.choice(cands)
            rel = posixpath.relpath(tgt["path"], posixpath.dirname(p) or ".")
            # other spellings of the same target: the link text is member content and has to come back as written
            sp = rng.random()
            if sp < 0.12 and not rel.startswith("."):
                rel = "./" + rel
            elif sp < 0.2 and tgt["kind"] == "dir":
                rel = rel + "/"
            elif sp < 0.27 and "/" in rel:
                rel = rel.replace("/", "//", 1)
            entries.append({"path": p, "kind": "link", "target": rel, "to": tgt["kind"], "to_path": tgt["path"]})
    return entries


def make(root, entries):
    os.makedirs(root, exist_ok=True)
    for e in entries:
        p = os.path.join(root, e["path"])
        if e["kind"] == "dir":
            os.mkdir(p)
        elif e["kind"] == "file":
            with open(p, "wb") as f:
                f.write(G.materialise(e["content"]))
        else:
            os.symlink(e["target"], p)
    # metadata: files first, then directories deepest first (so that read-only dirs do not block)
    for e in entries:
        if e["kind"] == "file":
            p = os.path.join(root, e["path"])
            os.utime(p, ns=(e["mtime_ns"], e["mtime_ns"]))
            os.chmod(p, e["mode"])
    for e in sorted((e for e in entries if e["kind"] == "dir"), key=lambda e: -e["path"].count("/")):
        p = os.path.join(root, e["path"])
        os.utime(p, ns=(e["mtime_ns"], e["mtime_ns"]))
        os.chmod(p, e["mode"])


def unlock(root):
    """Make everything under root deletable again."""
    for dp, dns, fns in os.walk(root):
        try:
            os.chmod(dp, 0o700)
        except OSError:
            pass
        for d in dns:
            q = os.path.join(dp, d)
            if not os.path.islink(q):
                try:
                    os.chmod(q, 0o700)
                except OSError:
                    pass


def deref_image_is_finite(entries, limit=12):
    """True when following every directory link terminates (no link leads, directly or through other
    links, back to a directory on the path being expanded)."""
    import posixpath

    by = {e["path"]: e for e in entries}
    children = {}
    for e in entries:
        children.setdefault(posixpath.dirname(e["path"]), []).append(e)

    def resolve(p, hops=0):
        e = by.get(p)
        while e is not None and e["kind"] == "link" and hops < 40:
            p = posixpath.normpath(posixpath.join(posixpath.dirname(p), e["target"]))
            e = by.get(p)
            hops += 1
        return e

    def walk(e, stack):
        if e is None or e["kind"] != "dir":
            return True
        if e["path"] in stack or len(stack) > limit:
            return False
        for c in children.get(e["path"], []):
            t = resolve(c["path"]) if c["kind"] == "link" else c
            if not walk(t, stack + [e["path"]]):
                return False
        return True

    for e in children.get("", []):
        t = resolve(e["path"]) if e["kind"] == "link" else e
        if not walk(t, []):
            return False
    return True


def has_dir_link_cycle(entries):
    """True when following links could revisit an ancestor (dereference would not terminate)."""
    for e in entries:
        if e["kind"] == "link" and e.get("to") == "dir":
            t = e["to_path"]
            if e["path"].startswith(t + "/") or t == "":
                return True
    return False
