"""Generators: member names, contents, py7zr filter chains, member lists.
Everything is JSON-serialisable (contents are described by a recipe, materialised in
the worker) and driven by the check's PRNG only."""
import random
import struct

# ---------------------------------------------------------------- names
_ALPH = {
    "ascii": list("abcxyzABC0123_-+=@#%&()[]{}~!$^',;"),
    "space": [" ", "a", "b", "."],
    "ctrl": [chr(c) for c in range(1, 32)] + ["a"],
    "bmp": list("äöüßéñçøあいう漢字Жщ€Ωλ中文한글ไทย") + ["a"],
    "combining": ["á", "ë", "ñ", "कि", "o"],
    "astral": ["\U0001F600", "\U00010348", "\U0002070E", "\U0001F468‍\U0001F469", "a"],
}
_SPECIAL_COMPONENTS = [".hidden", "..x", "x..", "...", " lead", "trail ", "c:", "C:x", "con", "a.b.c", "~", "-", "%41", "a:b"]


def component(rng: random.Random, flavour=None, maxlen=12) -> str:
    flavour = flavour or rng.choice(list(_ALPH) + ["special", "long"])
    if flavour == "special":
        return rng.choice(_SPECIAL_COMPONENTS)
    if flavour == "long":
        # 255 bytes of UTF-8 exactly (file-system limit per component)
        base = rng.choice(["a", "é", "漢"])
        n = 255 // len(base.encode())
        return base * n
    alph = _ALPH[flavour]
    n = rng.randint(1, maxlen)
    s = "".join(rng.choice(alph) for _ in range(n))
    if s in (".", ".."):
        s += "x"
    return s


def names(rng: random.Random, count: int, prefix_free=False, small_alphabet=False, max_depth=6, flavours=None, fs_safe=False):
    """count pairwise-distinct relative POSIX paths. prefix_free: no name is a path-ancestor of
    another (needed when extracting files to disk). fs_safe: components <= 255 UTF-8 bytes, and the
    whole path <= 900 bytes."""
    out = []
    seen = set()
    tries = 0
    while len(out) < count and tries < count * 200:
        tries += 1
        depth = rng.choice([1, 1, 1, 2, 2, 3, rng.randint(1, max_depth)])
        if small_alphabet:
            comps = [rng.choice(["a", "b", "t"]) for _ in range(depth)]
        else:
            fl = rng.choice(flavours) if flavours else None
            comps = [component(rng, fl if rng.random() < 0.7 else None) for _ in range(depth)]
        if fs_safe:
            comps = [c for c in comps if len(c.encode("utf-8", "surrogatepass")) <= 255]
            if not comps:
                continue
        name = "/".join(comps)
        if fs_safe and len(name.encode("utf-8")) > 900:
            continue
        if name in seen:
            continue
        if prefix_free:
            bad = False
            for o in out:
                if o.startswith(name + "/") or name.startswith(o + "/"):
                    bad = True
                    break
            if bad:
                continue
        seen.add(name)
        out.append(name)
    return out


# ---------------------------------------------------------------- contents
BOUNDARY_LENGTHS = [0, 1, 2, 15, 16, 17, 31, 32, 33, 47, 48, 255, 256, 4095, 4096, 4097, 32767, 32768, 32769, 65535, 65536, 65537]
BIG_LENGTHS = [(1 << 20) - 1, 1 << 20, (1 << 20) + 1, (1 << 20) + 16, (2 << 20) + 17, (3 << 20) - 5]
TEXTURES = ["random", "zeros", "period", "text", "x86", "arm", "ppc", "sparc", "ia64", "armt"]


def content_recipe(rng: random.Random, max_len=70000, allow_big=False, length=None, texture=None):
    if length is None:
        r = rng.random()
        if r < 0.45:
            length = rng.choice(BOUNDARY_LENGTHS)
        elif r < 0.5 and allow_big:
            length = rng.choice(BIG_LENGTHS)
        else:
            length = int(rng.random() ** 3 * max_len)
        length = min(length, max_len if not allow_big else max(max_len, BIG_LENGTHS[-1]))
    return {"len": length, "tex": texture or rng.choice(TEXTURES), "seed": rng.getrandbits(32)}


def materialise(rec) -> bytes:
    n, tex = rec["len"], rec["tex"]
    r = random.Random(rec["seed"])
    if n == 0:
        return b""
    if tex == "zeros":
        return bytes(n)
    if tex == "random":
        return r.randbytes(n)
    if tex == "period":
        p = r.randbytes(r.randint(1, 37))
        return (p * (n // len(p) + 1))[:n]
    if tex == "text":
        words = [b"the", b"quick", b"brown", b"fox", b"jumps", b"over", b"lazy", b"dog", b"\n", b"7z", b"archive", b"\xe6\xbc\xa2\xe5\xad\x97"]
        out = bytearray()
        while len(out) < n:
            out += r.choice(words) + b" "
        return bytes(out[:n])
    if tex == "x86dense":
        # a call instruction every five bytes, displacement with a sign-extension byte: the x86 filter converts all of them, the last ones too
        out = bytearray()
        while len(out) < n + 8:
            out += b"\xe8" + r.randbytes(3) + bytes([r.choice([0, 0xFF])])
        off = r.randrange(5)
        return bytes(out[off : off + n])
    # machine-code-like textures so that BCJ filters really transform bytes
    out = bytearray(r.randbytes(n))
    if tex == "x86":
        for i in range(0, n - 5, 11):
            out[i] = r.choice([0xE8, 0xE9])
            out[i + 1 : i + 5] = struct.pack("<i", r.randint(-70000, 70000))
    elif tex == "arm":
        for i in range(0, n - 4, 8):
            out[i : i + 3] = r.randbytes(3)
            out[i + 3] = 0xEB
    elif tex == "armt":
        for i in range(0, n - 4, 6):
            out[i + 1] = 0xF0 | r.randint(0, 7)
            out[i + 3] = 0xF8 | r.randint(0, 7)
    elif tex == "ppc":
        for i in range(0, n - 4, 8):
            out[i] = 0x48 | r.randint(0, 3)
            out[i + 3] = (out[i + 3] & 0xFC) | 1
    elif tex == "sparc":
        for i in range(0, n - 4, 8):
            out[i] = r.choice([0x40, 0x7F])
            out[i + 1] = r.choice([0x00, 0xC0]) if out[i] == 0x40 else r.choice([0xC0, 0xFF])
    elif tex == "ia64":
        for i in range(0, n - 16, 16):
            out[i] = (out[i] & 0xE0) | r.choice([0x10, 0x11, 0x16, 0x17])
    return bytes(out)


# ---------------------------------------------------------------- filter chains (py7zr side)
# numeric ids as in py7zr.properties (resolved in the worker, kept symbolic here)
COMPRESSORS = ["LZMA2", "LZMA", "BZIP2", "DEFLATE", "DEFLATE64", "COPY", "ZSTD", "PPMD", "BROTLI"]
NATIVE = ("LZMA2", "LZMA")
BCJ = ["X86", "ARM", "ARMTHUMB", "POWERPC", "SPARC"]
FRONT_NATIVE = BCJ + ["DELTA", "IA64"]


def chain(rng: random.Random, comp=None, front="auto", aes=None, fast=True):
    """A symbolic chain: list of {"f": NAME, ...params}. front filters per py7zr's rules:
    Delta/IA64 only in front of LZMA/LZMA2; BCJ family in front of anything but Copy-alone AES."""
    comp = comp or rng.choice(COMPRESSORS)
    c = {"f": comp}
    if comp in NATIVE:
        c["preset"] = rng.choice([0, 1, 1, 2, 3]) if fast else rng.choice(list(range(10)) + [6 | 0x80000000])
    elif comp == "ZSTD":
        c["level"] = rng.choice([1, 3, 3, 7]) if fast else rng.randint(1, 22)
    elif comp == "BROTLI":
        c["level"] = rng.choice([0, 1, 4, 5]) if fast else rng.randint(0, 11)
    elif comp == "PPMD":
        c["order"] = rng.choice([2, 6, 8, 16]) if not fast else rng.choice([2, 6])
        c["mem"] = rng.choice([16, 20, 24, "16m", "64k", "1048576b"]) if not fast else rng.choice([16, 20, "1m"])
    out = [c]
    if front == "auto":
        r = rng.random()
        if r < 0.45:
            front = None
        elif comp in NATIVE:
            front = rng.choice(FRONT_NATIVE)
        elif comp == "COPY":
            front = rng.choice(BCJ)
        else:
            front = rng.choice(BCJ)
    if front:
        out.insert(0, {"f": front})
    if aes is None:
        aes = rng.random() < 0.3
    if aes:
        out.append({"f": "AES"})
    return out


def chain_label(ch):
    return "+".join(c["f"] for c in ch)


def all_chains(rng, fast=True):
    """Every documented family at least once: compressor x {none, each applicable front filter} x {no AES, AES}."""
    out = []
    for comp in COMPRESSORS:
        fronts = [None] + (FRONT_NATIVE if comp in NATIVE else BCJ)
        for fr in fronts:
            for aes in (False, True):
                out.append(chain(rng, comp, fr, aes, fast))
    out.append([{"f": "AES"}])
    return out


def resolve_chain(ch):
    """symbolic -> py7zr filter list (done in the worker)."""
    import py7zr
    from py7zr import properties as P

    ids = {
        "LZMA2": P.FILTER_LZMA2, "LZMA": P.FILTER_LZMA, "BZIP2": P.FILTER_BZIP2, "DEFLATE": P.FILTER_DEFLATE,
        "DEFLATE64": P.FILTER_DEFLATE64, "COPY": P.FILTER_COPY, "ZSTD": P.FILTER_ZSTD, "PPMD": P.FILTER_PPMD,
        "BROTLI": P.FILTER_BROTLI, "X86": P.FILTER_X86, "ARM": P.FILTER_ARM, "ARMTHUMB": P.FILTER_ARMTHUMB,
        "POWERPC": P.FILTER_POWERPC, "SPARC": P.FILTER_SPARC, "IA64": P.FILTER_IA64, "DELTA": P.FILTER_DELTA,
        "AES": P.FILTER_CRYPTO_AES256_SHA256,
    }
    out = []
    for c in ch:
        d = {"id": ids[c["f"]]}
        for k, v in c.items():
            if k != "f":
                d[k] = v
        out.append(d)
    return out


# ---------------------------------------------------------------- member lists
def member_list(rng: random.Random, n=None, max_len=70000, allow_big=False, **name_kw):
    if n is None:
        n = rng.choice([0, 1, 1, 2, 2, 3, 3, 4, 5, 8])
    nm = names(rng, n, **name_kw)
    return [{"name": x, "content": content_recipe(rng, max_len, allow_big)} for x in nm]


PASSWORDS = ["secret", "", "pässwörd", "パスワード", "\U0001F511key", "p" * 70, " spaced out ", "Secret"]
