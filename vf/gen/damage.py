"""Damage engine: deterministic descriptions of damaged images of a base archive.
An op is a small list; apply(base, op) -> bytes."""
import random


def apply(base: bytes, op) -> bytes:
    k = op[0]
    b = bytearray(base)
    if k == "flip":  # ["flip", bit_index]
        b[op[1] >> 3] ^= 0x80 >> (op[1] & 7)
    elif k == "trunc":  # ["trunc", length]
        del b[op[1]:]
    elif k == "set":  # ["set", pos, value]
        b[op[1]] = op[2]
    elif k == "burst":  # ["burst", bitpos, nbits, seed]
        r = random.Random(op[3])
        for i in range(op[2]):
            p = op[1] + i
            if p < len(b) * 8 and (i == 0 or i == op[2] - 1 or r.random() < 0.5):
                b[p >> 3] ^= 0x80 >> (p & 7)
    elif k == "insert":  # ["insert", pos, hexbytes]
        b[op[1]:op[1]] = bytes.fromhex(op[2])
    elif k == "delete":  # ["delete", pos, n]
        del b[op[1]:op[1] + op[2]]
    elif k == "swap":  # ["swap", pos1, pos2, n]
        p1, p2, n = op[1], op[2], op[3]
        b[p1:p1 + n], b[p2:p2 + n] = b[p2:p2 + n], b[p1:p1 + n]
    elif k == "extend":  # ["extend", hexbytes]
        b += bytes.fromhex(op[1])
    elif k == "zero":  # ["zero", pos, n]
        b[op[1]:op[1] + op[2]] = bytes(len(b[op[1]:op[1] + op[2]]))
    elif k == "splice":  # ["splice", pos, n, otherhex]  replace a range by bytes of another archive
        b[op[1]:op[1] + op[2]] = bytes.fromhex(op[3])
    else:
        raise ValueError(op)
    return bytes(b)


def sampled_ops(rng: random.Random, size: int, pack_lo: int, pack_hi: int, n: int):
    out = []
    for _ in range(n):
        k = rng.choice(["set", "set", "burst", "burst", "insert", "delete", "swap", "extend", "zero"])
        if k == "set":
            out.append(["set", rng.randrange(size), rng.choice([0, 0xFF, rng.randrange(256)])])
        elif k == "burst":
            out.append(["burst", rng.randrange(size * 8), rng.randint(2, 32), rng.getrandbits(30)])
        elif k == "insert":
            out.append(["insert", rng.randrange(size + 1), rng.randbytes(rng.randint(1, 8)).hex()])
        elif k == "delete":
            out.append(["delete", rng.randrange(size), rng.randint(1, 8)])
        elif k == "swap" and pack_hi - pack_lo >= 8:
            n_ = rng.randint(1, max(1, (pack_hi - pack_lo) // 4))
            p1 = rng.randrange(pack_lo, pack_hi - 2 * n_ + 1) if pack_hi - 2 * n_ + 1 > pack_lo else pack_lo
            p2 = rng.randrange(p1 + n_, pack_hi - n_ + 1) if pack_hi - n_ + 1 > p1 + n_ else p1 + n_
            if p2 + n_ <= pack_hi:
                out.append(["swap", p1, p2, n_])
        elif k == "extend":
            out.append(["extend", rng.randbytes(rng.randint(1, 40)).hex()])
        elif k == "zero":
            out.append(["zero", rng.randrange(size), rng.randint(1, 16)])
    return out


def region(pos: int, pack_lo: int, pack_hi: int, hdr_lo: int) -> str:
    if pos < 32:
        return "signature-header"
    if pack_lo <= pos < pack_hi:
        return "packed-streams"
    if pos >= hdr_lo:
        return "header"
    return "header-pack-stream"
