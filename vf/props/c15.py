"""C15 — a failed write call does not poison the archive (fault injection + model of successful calls)."""
import errno
import io
import os
import pathlib
import random

from vf.core import pz
from vf.gen import basic as G
from vf.props import common as K
from vf.ref7z import reader as R

LEVEL = "fault_enumeration"
CASE_TIMEOUT = 300
CPU_BUDGET = 120
REQUIRED_OBS = ["histories", "faults_injected", "faulty_calls_that_raised", "archives_read_back"]
FAULTS = ["missing", "open-EACCES", "open-EIO", "lstat-EACCES", "read-fails-at-0", "read-fails-midway", "writef-read-fails-at-0", "writef-read-fails-midway", "bad-arcname-writestr",
          "bad-arcname-writef", "writeall-missing",
          # sources and arguments that cannot be stored: the call itself has to say so (found by a bug hunt: they used to be accepted and to make close() fail)
          "fifo-source", "ancient-mtime", "undecodable-name", "writef-past-eof", "nul-in-arcname",
          # third hunt: a read ended by KeyboardInterrupt (not an Exception); a source failing right after a prefix that leaves the CRC register
          # unchanged (the shifted neighbour then passes its CRC); a tree with one entry in the middle that cannot be stored
          "read-interrupted-at-0", "writef-read-interrupted-at-0", "read-fails-after-crc-neutral-prefix", "writef-read-fails-after-crc-neutral-prefix",
          "writeall-unreadable-member", "writeall-undecodable-member"]
CRC_NEUTRAL = bytes.fromhex("9d0ad96d")  # crc32 == 0: crc32(prefix + x) == crc32(x)
RULE = ("write histories of 1..5 calls (write, writestr, writef, writeall) with ONE fault injected into call i: source missing (real), open raising EACCES/EIO or lstat "
        "raising EACCES (patched pathlib.Path for that path only), read raising after 0 or k bytes (faulty file object for write; caller-supplied BufferedIOBase for "
        "writef), name rejected (ValueError), sources and arguments that cannot be stored (FIFO, mtime before 1601, undecodable file name, file object positioned past its end, "
        "NUL in the name), read() ended by KeyboardInterrupt, read failing right after a 4-byte prefix whose CRC-32 is zero (a shifted neighbour passes its CRC), writeall() of a tree with one unreadable / unstorable entry in the middle; create and append sessions (the archive appended to holds 'old.txt'); symbolic links among the successful calls; followed by 0..2 further successful "
        "writes; closed by context manager or explicitly. Oracle: the faulty call raised to the "
        "caller; for open/argument faults the closed archive holds exactly the successfully written members, intact (py7zr and reference reader), and the failed source "
        "is never opened or read again later in the session; for mid-read faults the closed file never opens successfully with wrong contents. Cell = (fault kind, "
        "position of the faulty call, calls after it, close style, chain).")
EXHAUSTIVE = {"quick": "every fault kind x position 0..2 x 0..2 following calls x close style for histories <= 3 calls", "thorough": "as quick, plus random histories <= 5 calls"}


def cases(rng, tier):
    out = []
    for fault in FAULTS:
        for before in (0, 1, 2):
            for after in (0, 1, 2):
                for close in ("ctx", "explicit"):
                    for dirbefore in ((False, True) if before else (False,)):
                        out.append({"fault": fault, "before": before, "after": after, "close": close, "chain": rng.choice(["LZMA2", "COPY", "DEFLATE", "ZSTD"]), "seed": rng.getrandbits(32),
                                    "header": rng.choice(["encoded", "raw"]), "dirbefore": dirbefore, "mode": "a" if (before + after) % 2 else "w", "links": fault.endswith("midway") or rng.random() < 0.2})
    for c in out:
        if "crc-neutral" in c["fault"]:
            c["chain"] = ["COPY", "LZMA2"][c["seed"] % 2]
            c["links"] = False
    if tier == "thorough":
        for _ in range(4000):
            out.append({"fault": rng.choice(FAULTS), "before": rng.randint(0, 3), "after": rng.randint(0, 2), "close": rng.choice(["ctx", "explicit"]), "dirbefore": rng.random() < 0.4,
                        "chain": rng.choice(["LZMA2", "COPY", "DEFLATE", "ZSTD", "BZIP2", "LZMA"]), "seed": rng.getrandbits(32), "header": rng.choice(["encoded", "raw"]),
                        "mode": rng.choice(["w", "a"]), "links": rng.random() < 0.4})
    return out


class FaultyReader(io.BufferedIOBase):
    def __init__(self, data, fail_at, exc=None):
        self._b = io.BytesIO(data)
        self.fail_at = fail_at
        self.reads_after_failure = 0
        self.failed = False
        self.exc = exc

    def read(self, n=-1):
        if self.failed:
            self.reads_after_failure += 1
            raise OSError(errno.EIO, "injected read error (again)")
        if self._b.tell() >= self.fail_at:
            self.failed = True
            if self.exc is not None:
                raise self.exc("injected interruption of read()")
            raise OSError(errno.EIO, "injected read error")
        if n is None or n < 0:
            n = len(self._b.getvalue())
        return self._b.read(min(n, max(1, self.fail_at - self._b.tell())))

    def seek(self, o, w=0):
        return self._b.seek(o, w)

    def tell(self):
        return self._b.tell()

    def readable(self):
        return True

    def seekable(self):
        return True


class _FaultyFile:
    """File object returned by a patched Path.open: fails after fail_at bytes."""

    def __init__(self, real, fail_at, state):
        self.real, self.fail_at, self.state = real, fail_at, state

    def read(self, n=-1):
        if self.real.tell() >= self.fail_at:
            self.state["read_failures"] += 1
            if self.state.get("exc") is not None:
                raise self.state["exc"]("injected interruption of read()")
            raise OSError(errno.EIO, "injected read error")
        return self.real.read(min(n if n and n > 0 else 1 << 30, max(1, self.fail_at - self.real.tell())))

    def __enter__(self):
        return self

    def __exit__(self, *a):
        self.real.close()

    def close(self):
        self.real.close()

    def __getattr__(self, name):
        return getattr(self.real, name)


def run_case(case):
    import py7zr

    r = random.Random(case["seed"])
    viol = []
    obs = {k: 0 for k in REQUIRED_OBS}
    fault = case["fault"]
    filt = {"LZMA2": [{"id": py7zr.FILTER_LZMA2, "preset": 1}], "COPY": [{"id": py7zr.FILTER_COPY}], "DEFLATE": [{"id": py7zr.FILTER_DEFLATE}], "ZSTD": [{"id": py7zr.FILTER_ZSTD, "level": 1}],
            "BZIP2": [{"id": py7zr.FILTER_BZIP2}], "LZMA": [{"id": py7zr.FILTER_LZMA, "preset": 1}]}[case["chain"]]
    state = {"armed": False, "victim": None, "opens_after": 0, "lstats_after": 0, "failed": False, "read_failures": 0}
    o_open, o_lstat = pathlib.Path.open, pathlib.Path.lstat

    def p_open(self, *a, **k):
        if state["victim"] is not None and str(self) == state["victim"]:
            if state["failed"]:
                state["opens_after"] += 1
            if state["armed"]:
                if fault in ("open-EACCES", "open-EIO", "writeall-unreadable-member"):
                    state["failed"] = True
                    state["armed"] = False
                    raise OSError(errno.EACCES if fault == "open-EACCES" else errno.EIO, "injected open error", str(self))
                if fault in ("read-fails-at-0", "read-fails-midway", "read-interrupted-at-0", "read-fails-after-crc-neutral-prefix"):
                    state["failed"] = True
                    state["armed"] = False
                    real = o_open(self, *a, **k)
                    return _FaultyFile(real, 0 if fault.endswith("at-0") else state["fail_at"], state)
        return o_open(self, *a, **k)

    def p_lstat(self, *a, **k):
        if state["victim"] is not None and str(self) == state["victim"]:
            if state["failed"]:
                state["lstats_after"] += 1
            if state["armed"] and fault == "lstat-EACCES":
                state["failed"] = True
                state["armed"] = False
                raise OSError(errno.EACCES, "injected lstat error", str(self))
        return o_lstat(self, *a, **k)

    model = []
    model_files = []
    links = {}
    dirs = []
    order = []
    faulty_obj = None
    raised = None
    with pz.scratch("vf-c15-") as d:
        src = os.path.join(d, "src")
        os.mkdir(src)
        arc = os.path.join(d, "a.7z")
        counter = [0]

        def good_call(z, tag, how=None):
            counter[0] += 1
            if how == "write_dir":
                name = "%s-%d-dir" % (tag, counter[0])
                p = os.path.join(src, "d%d" % counter[0])
                os.mkdir(p)
                z.write(p, name)
                dirs.append(name)
                order.append(name)
                return
            if case.get("links") and model_files and r.random() < 0.5:
                # a symbolic link to a file written earlier: its target text is member content too
                name = "%s-%d-link" % (tag, counter[0])
                tgt = r.choice(model_files)
                lp = os.path.join(src, "l%d" % counter[0])
                os.symlink(os.path.basename(tgt), lp)
                z.write(lp, name)
                links[name] = os.path.basename(tgt)
                order.append(name)
                return
            how = r.choice(["writestr", "writef", "write"])
            name = "%s-%d-%s" % (tag, counter[0], how)
            data = G.materialise(G.content_recipe(r, max_len=20000))
            if how == "writestr":
                z.writestr(data, name)
            elif how == "writef":
                z.writef(io.BytesIO(data), name)
            else:
                p = os.path.join(src, "g%d" % counter[0])
                with open(p, "wb") as f:
                    f.write(data)
                z.write(p, name)
                model_files.append(p)
            model.append((name, data))
            order.append(name)

        pathlib.Path.open, pathlib.Path.lstat = p_open, p_lstat
        z = None
        close_err = None
        try:
            if case.get("mode") == "a":
                with py7zr.SevenZipFile(arc, "w", filters=filt) as z0:
                    z0.writestr(b"old contents " * 20, "old.txt")
                model.append(("old.txt", b"old contents " * 20))
                order.append("old.txt")
            z = py7zr.SevenZipFile(arc, case.get("mode", "w"), filters=filt)
            if case["header"] == "raw":
                z.set_encoded_header_mode(False)
            for i in range(case["before"]):
                # optionally the entry right before the faulty call is a directory (no stream of its own)
                good_call(z, "before", "write_dir" if (case.get("dirbefore") and i == case["before"] - 1) else None)
            # ---- the faulty call
            vdata = G.materialise({"len": 70000, "tex": "text", "seed": 5})
            vpath = os.path.join(src, "victim.bin")
            obs["faults_injected"] = 1
            try:
                if fault == "missing":
                    z.write(os.path.join(src, "does-not-exist"), "victim")
                elif fault == "writeall-missing":
                    z.writeall(os.path.join(src, "no-such-dir"), "victim")
                elif fault in ("open-EACCES", "open-EIO", "lstat-EACCES", "read-fails-at-0", "read-fails-midway"):
                    with open(vpath, "wb") as f:
                        f.write(vdata)
                    state.update(victim=vpath, armed=True, fail_at=30000)
                    z.write(vpath, "victim")
                elif fault in ("writef-read-fails-at-0", "writef-read-fails-midway"):
                    faulty_obj = FaultyReader(vdata, 0 if fault.endswith("at-0") else 30000)
                    z.writef(faulty_obj, "victim")
                elif fault == "read-interrupted-at-0":
                    with open(vpath, "wb") as f:
                        f.write(vdata)
                    state.update(victim=vpath, armed=True, fail_at=0, exc=KeyboardInterrupt)
                    z.write(vpath, "victim")
                elif fault == "writef-read-interrupted-at-0":
                    faulty_obj = FaultyReader(vdata, 0, exc=KeyboardInterrupt)
                    z.writef(faulty_obj, "victim")
                elif fault == "read-fails-after-crc-neutral-prefix":
                    vdata = CRC_NEUTRAL + vdata
                    with open(vpath, "wb") as f:
                        f.write(vdata)
                    state.update(victim=vpath, armed=True, fail_at=len(CRC_NEUTRAL))
                    z.write(vpath, "victim")
                elif fault == "writef-read-fails-after-crc-neutral-prefix":
                    vdata = CRC_NEUTRAL + vdata
                    faulty_obj = FaultyReader(vdata, len(CRC_NEUTRAL))
                    z.writef(faulty_obj, "victim")
                elif fault in ("writeall-unreadable-member", "writeall-undecodable-member"):
                    tree = os.path.join(src, "tree")
                    os.makedirs(os.path.join(tree, "sub"))
                    for nm_ in ("a.txt", "sub/b.txt", "z.txt"):
                        with open(os.path.join(tree, nm_), "wb") as f:
                            f.write(b"tree member " + nm_.encode())
                    if fault == "writeall-unreadable-member":
                        vpath = os.path.join(tree, "m.txt")
                        with open(vpath, "wb") as f:
                            f.write(vdata)
                        state.update(victim=vpath, armed=True)
                    else:
                        with open(os.path.join(os.fsencode(tree), b"m\xff.txt"), "wb") as f:
                            f.write(b"x")
                    z.writeall(tree, "victim")
                elif fault == "fifo-source":
                    fp_ = os.path.join(src, "pipe")
                    os.mkfifo(fp_)
                    z.write(fp_, "victim")
                elif fault == "ancient-mtime":
                    with open(vpath, "wb") as f:
                        f.write(vdata)
                    os.utime(vpath, (-2.0e10, -2.0e10))  # year 1336: before the FILETIME epoch
                    z.write(vpath, "victim")
                elif fault == "undecodable-name":
                    bad = os.path.join(os.fsencode(src), b"caf\xe9.txt")
                    with open(bad, "wb") as f:
                        f.write(b"x")
                    z.write(os.fsdecode(bad), os.fsdecode(b"victim-caf\xe9"))
                elif fault == "writef-past-eof":
                    with open(vpath, "wb") as f:
                        f.write(b"0123456789")
                    fobj_ = open(vpath, "rb")
                    fobj_.seek(1000)
                    try:
                        z.writef(fobj_, "victim")
                    finally:
                        fobj_.close()
                elif fault == "nul-in-arcname":
                    z.writestr(b"data", "vic\x00tim/x")
                elif fault == "bad-arcname-writestr":
                    z.writestr(b"data", "../escape")
                elif fault == "bad-arcname-writef":
                    z.writef(io.BytesIO(b"data"), "/abs/name")
            except BaseException as e:
                raised = e
            state["armed"] = False
            if raised is not None:
                obs["faulty_calls_that_raised"] = 1
            else:
                viol.append({"key": "fault-swallowed/%s" % fault, "what": "%s: the faulty call returned normally" % fault})
            after_ok = True
            for _ in range(case["after"]):
                try:
                    good_call(z, "after")
                except Exception as e:
                    after_ok = False
                    viol.append({"key": "later-write-fails/%s/%s" % (fault, type(e).__name__), "what": "%s in call %d: a later, valid write call raised %s" % (fault, case["before"], pz.exc_sig(e))})
                    break
            try:
                if case["close"] == "ctx":
                    z.__exit__(None, None, None)
                else:
                    z.close()
            except Exception as e:
                close_err = e
        finally:
            pathlib.Path.open, pathlib.Path.lstat = o_open, o_lstat
        obs["histories"] = 1
        # any failure of read() - also at the very first byte - is 'a source failing while being read'
        midread = "read-fails" in fault or "read-interrupted" in fault
        names = list(order)  # members in call order, directory entries included
        tag = "%s in call %d, %d calls after, close=%s, chain %s" % (fault, case["before"], case["after"], case["close"], case["chain"])
        # retried behind the caller's back?
        if state["opens_after"] or (faulty_obj is not None and faulty_obj.reads_after_failure):
            viol.append({"key": "failed-source-retried/%s" % fault, "what": "%s: the failed source was opened/read again later in the session (%d opens, %d reads)" % (
                tag, state["opens_after"], faulty_obj.reads_after_failure if faulty_obj else 0)})
        with open(arc, "rb") as f:
            data = f.read()
        midread_hint = midread
        py = ref = None
        try:
            n, got = pz.read_mem(data)
            py = ("ok", n, got)
        except Exception as e:
            py = ("err", pz.exc_sig(e))
        try:
            a = R.parse(data, None)
            ref = ("ok", a.names(), {m.name: m.data for m in a.members if m.data is not None}, a.findings)
            if midread_hint and a.findings:
                # CRC / size findings are how a conforming reader *detects* the damage: not a successful open
                ref = ("err", "detected: " + a.findings[0][:100])
        except Exception as e:
            ref = ("err", pz.exc_sig(e))
        obs["archives_read_back"] = 1
        if not midread:
            if close_err is not None:
                viol.append({"key": "close-raises-after-fault/%s/%s" % (fault, type(close_err).__name__), "what": "%s: close() raised %s" % (tag, pz.exc_sig(close_err))})
            for who, res in (("py7zr", py), ("reference", ref)):
                if res[0] == "err":
                    viol.append({"key": "archive-unreadable-after-fault/%s/%s" % (fault, who), "what": "%s: closed archive cannot be read by %s: %s" % (tag, who, res[1][:150])})
                elif res[1] != names:
                    extra = [x for x in res[1] if x not in names]
                    viol.append({"key": "members-differ-after-fault/%s/%s" % (fault, "failed-member-listed" if "victim" in extra else "other"),
                                 "what": "%s: %s lists %r, successful calls wrote %r" % (tag, who, res[1][:6], names[:6])})
                else:
                    bad = [n for n, b in model if res[2].get(n) != b]
                    if bad:
                        viol.append({"key": "bytes-differ-after-fault/%s" % fault, "what": "%s: %s delivers different bytes for %r" % (tag, who, bad[:3])})
            if ref[0] == "ok" and ref[3]:
                viol.append({"key": "structure-after-fault/%s" % fault, "what": "%s: reference findings %r" % (tag, ref[3][:2])})
        else:
            # mid-read failure: the stream is poisoned; the file must never open successfully with wrong contents
            for who, res in (("py7zr", py), ("reference", ref)):
                if res[0] == "ok":
                    listed = res[1]
                    want = dict(model)
                    wrong = [n for n in listed if n in want and res[2].get(n) != want[n]]
                    victim_listed = "victim" in listed
                    if wrong or (victim_listed and res[2].get("victim") != vdata):
                        viol.append({"key": "midread-opens-with-wrong-contents/%s/%s" % (fault, who), "what": "%s: %s opens the file successfully: lists %r, wrong bytes for %r%s" % (
                            tag, who, listed[:6], wrong[:3], " and a partial 'victim'" if victim_listed else "")})
        if links:
            # link members: their target text is content too. Whatever happened, an extraction that succeeds must create the links as written
            out_ = os.path.join(d, "xl")
            try:
                with py7zr.SevenZipFile(arc, "r") as zz:
                    zz.extractall(out_)
                obs["link_targets_checked"] = obs.get("link_targets_checked", 0) + len(links)
                for ln, tgt in links.items():
                    p_ = os.path.join(out_, ln)
                    got_t = os.readlink(p_) if os.path.islink(p_) else None
                    if got_t != tgt:
                        viol.append({"key": "link-extracted-with-wrong-target/%s" % fault, "what": "%s: extractall succeeded and made %r -> %r, written as -> %r" % (tag, ln, got_t, tgt)})
            except Exception:
                obs["link_extractions_raised"] = obs.get("link_extractions_raised", 0) + 1
    cell = "%s|at%d|after%d|%s|%s|%s|%s" % (fault, case["before"], case["after"], case["close"], case["chain"], "dir-before" if case.get("dirbefore") else "-", case.get("mode", "w"))
    sample = {"fault": fault, "before": case["before"], "after": case["after"], "close": case["close"], "raised": None if raised is None else type(raised).__name__,
              "py7zr": py[0] if py else None, "reference": ref[0] if ref else None}
    if viol:
        seen = {}
        for v in viol:
            seen.setdefault(v["key"], v)
        return K.result("violated", violations=list(seen.values()), cell=cell, obs=obs, sample=sample)
    return K.result("held", cell=cell, obs=obs, sample=sample)


def on_abnormal(case, kind, info):
    if kind in ("cpu-budget", "deadlock"):
        return K.result("violated", key="hang/" + kind, what="write history with fault %s did not finish (%s)" % (case.get("fault"), kind))
    return None
