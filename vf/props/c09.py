"""C09 — selective extraction equals the restriction of full extraction (model: sel(T, recursive))."""
import io
import itertools
import os
import random

from vf.core import pz
from vf.gen import basic as G
from vf.props import common as K
from vf.ref7z import writer as W

LEVEL = "exploration"
CASE_TIMEOUT = 600
CPU_BUDGET = 500
REQUIRED_OBS = ["selective_extractions", "members_compared", "archives"]
RULE = ("archives (solid single folder / 2..4 folders; files, directories, empty files; written by py7zr sessions or by the reference writer) x ALL subsets T of "
        "member names (<= 7 members) plus absent names (also names sharing leading characters with members, '', '.'), as list or set, +- trailing '/', recursive False/True/None, "
        "directories stored with or without trailing '/', one session after testzip()/test()/another extraction (histories), members that are respellings of one output path ('a', './a', 'd//f', same name twice: each lands where extractall puts it), output to a WriterFactory (also with a path given: nothing may appear on disk) or a directory. "
        "Model: sel(T,r) = members named in T (slash stripped) + if r members beneath a named directory; expected = extractall restricted to sel; on disk "
        "nothing but selected members and their parent directories exists. Cell = (archive kind, folders, |T| class, recursive, sink, has-absent).")
EXHAUSTIVE = {"quick": "all subsets of member names for every archive (<= 7 members)", "thorough": "all subsets for archives <= 7 members; sampled subsets for 8..12 members"}


def _gen_archive(rng, nmax=7):
    """-> (members [(name, kind, bytes)], folder partition, writer kind). Names: no name is a string prefix of another except along '/'."""
    n = rng.randint(2, nmax)
    dirs = ["d%d" % i for i in range(rng.randint(0, 2))]
    if dirs and rng.random() < 0.5:
        dirs.append(dirs[0] + "/sub")
    names = []
    mem = []
    for d in dirs:
        mem.append((d, "dir", None))
    k = 0
    while len(mem) < n:
        parent = rng.choice(dirs + ["", ""])
        # zero padded: no name may be a proper string prefix of another except along '/' boundaries (the quantifier's restriction)
        nm = (parent + "/" if parent else "") + "f%02d%s" % (k, rng.choice([".txt", ".bin", "", " x"]))
        k += 1
        kind = "emptyfile" if rng.random() < 0.15 else "file"
        mem.append((nm, kind, G.materialise(G.content_recipe(rng, max_len=3000)) if kind == "file" else b""))
    # order: shuffle files but keep directory entries before their children sometimes, sometimes after
    if rng.random() < 0.5:
        rng.shuffle(mem)
    nstream = sum(1 for m in mem if m[1] == "file")
    nf = rng.choice([1, 1, 2, 3, 4])
    nf = max(1, min(nf, nstream))
    return mem, nf


def cases(rng, tier):
    out = []
    na = 30 if tier == "quick" else 300
    for i in range(na):
        mem, nf = _gen_archive(rng, 7)
        out.append({"members": [[n, k, (b or b"").hex()] for n, k, b in mem], "folders": nf, "writer": rng.choice(["ref", "py"]), "chain": rng.choice(["LZMA2", "COPY", "BCJ+LZMA2", "ZSTD"]),
                    "mode": "all", "seed": rng.getrandbits(32), "open": rng.choice(["path", "stream"]), "dirslash": i % 3 == 2})
    if tier == "thorough":
        for i in range(100):
            mem, nf = _gen_archive(rng, 12)
            out.append({"members": [[n, k, (b or b"").hex()] for n, k, b in mem], "folders": nf, "writer": rng.choice(["ref", "py"]), "chain": rng.choice(["LZMA2", "COPY", "BCJ+LZMA2", "ZSTD"]),
                        "mode": "sampled", "seed": rng.getrandbits(32), "open": rng.choice(["path", "stream"])})
    # session histories (a check or an earlier extraction before the selective one) and members whose names are different
    # spellings of one output path: where a member lands and what it holds must not depend on what else is selected
    for i in range(6 if tier == "quick" else 60):
        mem, nf = _gen_archive(rng, 6)
        out.append({"members": [[n, k, (b or b"").hex()] for n, k, b in mem], "folders": nf, "writer": rng.choice(["ref", "py"]), "chain": rng.choice(["LZMA2", "COPY", "BCJ+LZMA2", "ZSTD"]),
                    "mode": "history", "seed": rng.getrandbits(32), "open": rng.choice(["path", "stream"])})
    for i in range(6 if tier == "quick" else 60):
        out.append({"mode": "respelled", "seed": rng.getrandbits(32), "folders": rng.choice([1, 1, 2]), "chain": rng.choice(["LZMA2", "COPY"]), "open": rng.choice(["path", "stream"])})
    return out


RESPELL = [lambda n: n, lambda n: "./" + n, lambda n: n.replace("/", "//", 1) if "/" in n else "./" + n, lambda n: n.replace("/", "/./", 1) if "/" in n else "././" + n]


def _run_history(case):
    import py7zr

    viol, obs, cells = [], {"selective_extractions": 0, "members_compared": 0, "archives": 1, "histories": 0}, set()
    r = random.Random(case["seed"])
    with pz.scratch("vf-c09h-") as d:
        mem, data = _build(case, d)
        names = [n for n, _, _ in mem]
        nk = [(n, k) for n, k, _ in mem]
        path = os.path.join(d, "a.7z")
        with open(path, "wb") as f:
            f.write(data)

        def src():
            return path if case["open"] == "path" else io.BytesIO(data)

        try:
            gn, full = pz.read_mem(src())
        except Exception as e:
            return K.result("held", cell="skip-unreadable", nontrivial=False, obs={"skipped_unreadable": 1}, sample={"skip": pz.exc_sig(e)})
        if gn != names:
            return K.result("held", cell="skip-names", nontrivial=False, obs={"skipped_unreadable": 1})
        for hi in range(12):
            before = ["testzip", "test", "extract-other", "list+testzip", "extractall", "readall-like"][hi % 6]
            T = r.sample(names, r.randint(1, len(names)))
            recursive = r.choice([False, True])
            want = sel(nk, T, recursive)
            want_files = {n: full[n] for n in want if n in full}
            tag = "history %s then extract(T=%r, recursive=%s) in one session" % (before, T[:5], recursive)
            obs["histories"] += 1
            obs["selective_extractions"] += 1
            try:
                with py7zr.SevenZipFile(src()) as z:
                    if before == "testzip":
                        bad = z.testzip()
                        if bad is not None:
                            viol.append({"key": "history/testzip-reports-intact-archive", "what": "%s: testzip() names %r in an intact archive" % (tag, bad)})
                    elif before == "test":
                        z.test()
                    elif before == "list+testzip":
                        z.list()
                        z.testzip()
                        z.testzip()
                    elif before == "extract-other":
                        z.extract(targets=r.sample(names, r.randint(1, len(names))), factory=pz.CollectFactory())
                        z.reset()
                    elif before == "extractall":
                        z.extractall(factory=pz.CollectFactory())
                        z.reset()
                    else:
                        z.testzip()
                        z.reset()
                    fac = pz.CollectFactory()
                    z.extract(targets=T, recursive=recursive, factory=fac)
                got = fac.as_dict()
                obs["members_compared"] += len(want_files)
                if got != want_files:
                    viol.append({"key": "history/%s-then-extract-differs" % before, "what": "%s: delivered %r, extractall restricted to the selection is %r" % (
                        tag, {k: len(v) for k, v in sorted(got.items())[:6]}, {k: len(v) for k, v in sorted(want_files.items())[:6]})})
            except Exception as e:
                viol.append({"key": "history/%s-then-extract-raises/%s" % (before, type(e).__name__), "what": "%s raised %s" % (tag, pz.exc_sig(e))})
            cells.add("history|%s|f%d|%s|%s" % (before, case["folders"], case["writer"], "rec" if recursive else "flat"))
    if viol:
        seen = {}
        for v in viol:
            seen.setdefault(v["key"], v)
        return K.result("violated", violations=list(seen.values()), cells=sorted(cells), obs=obs, sample={"members": nk})
    return K.result("held", cells=sorted(cells), obs=obs, sample={"members": nk})


def _run_respelled(case):
    """Members whose stored names differ but denote one output path ('a', './a', 'd//f', or the same name twice): extractall keeps
    them apart with a suffix; the selective extraction of any subset delivers each selected member where extractall delivers it."""
    import py7zr

    viol, obs, cells = [], {"selective_extractions": 0, "members_compared": 0, "archives": 1, "respelled_archives": 1}, set()
    r = random.Random(case["seed"])
    base = r.sample(["a.txt", "d/f", "d/sub/g.bin", "k"], r.randint(1, 3))
    mem = []
    for b in base:
        sp = r.sample(range(len(RESPELL)), r.randint(2, 3))
        if r.random() < 0.3:
            sp.append(sp[0])  # the very same name twice
        for j in sp:
            mem.append(RESPELL[j](b))
    if r.random() < 0.5:
        mem.append("other.bin")
    r.shuffle(mem)
    datas = [("member %d of %d " % (i, len(mem))).encode() * (i + 2) for i in range(len(mem))]
    members = [{"name": n, "kind": "file", "data": datas[i], "attributes": 0x20 | 0x8000 | (0o100644 << 16), "mtime": 132000000000000000 + i} for i, n in enumerate(mem)]
    nf = min(case["folders"], len(mem))
    parts = [len(mem) // nf + (1 if i < len(mem) % nf else 0) for i in range(nf)]
    chain = {"LZMA2": [{"m": "LZMA2"}], "COPY": [{"m": "COPY"}]}[case["chain"]]
    data = W.build(members, {"folders": [{"n": p, "chain": chain, "crc": "sub"} for p in parts], "header": "raw"})
    with pz.scratch("vf-c09r-") as d:
        path = os.path.join(d, "a.7z")
        with open(path, "wb") as f:
            f.write(data)

        def src():
            return path if case["open"] == "path" else io.BytesIO(data)

        try:
            fullfac = pz.CollectFactory()
            with py7zr.SevenZipFile(src()) as z:
                gn = z.getnames()
                z.extractall(factory=fullfac)
            fulldir = os.path.join(d, "full")
            with py7zr.SevenZipFile(src()) as z:
                z.extractall(path=fulldir)
        except Exception as e:
            # refusing such an archive altogether is not this property's business
            return K.result("held", cell="respelled|refused", nontrivial=False, obs={"respelled_refused": 1}, sample={"names": mem, "refused": pz.exc_sig(e)})
        if gn != mem:
            return K.result("held", cell="respelled|names-normalised", nontrivial=False, obs={"respelled_refused": 1}, sample={"names": mem, "got": gn})
        where_f, where_d = {}, {}
        disk = {p: rec["data"] for p, rec in pz.walk_tree(fulldir).items() if rec["kind"] == "file"}
        for i, b in enumerate(datas):
            pf = [n for n, o in fullfac.created if bytes(o.buf) == b]
            pd = [p for p, v in disk.items() if v == b]
            if len(pf) != 1 or len(pd) != 1:
                # extractall itself does not keep the members apart: C13's business (collisions), nothing to restrict here
                return K.result("held", cell="respelled|extractall-merges", nontrivial=False, obs={"respelled_merged": 1}, sample={"names": mem})
            where_f[i], where_d[i] = pf[0], pd[0]
        distinct = sorted(set(mem))
        subsets = [list(c) for k in range(1, len(distinct) + 1) for c in itertools.combinations(distinct, k)]
        if len(subsets) > 80:
            subsets = r.sample(subsets, 80)
        for si, T in enumerate(subsets):
            chosen = [i for i, n in enumerate(mem) if n in T]
            targets = [t + "/" if (si + j) % 3 == 0 else t for j, t in enumerate(T)]
            tobj = set(targets) if si % 2 else targets
            tag = "names %r, extract(T=%r)" % (mem, targets)
            obs["selective_extractions"] += 2
            obs["members_compared"] += 2 * len(chosen)
            try:
                fac = pz.CollectFactory()
                with py7zr.SevenZipFile(src()) as z:
                    z.extract(targets=tobj, factory=fac)
                got = sorted((n, bytes(o.buf)) for n, o in fac.created)
                want = sorted((where_f[i], datas[i]) for i in chosen)
                if got != want:
                    viol.append({"key": "respelled/factory-delivery-depends-on-selection", "what": "%s through a factory delivers %r; extractall delivers these members as %r" % (
                        tag, [(n, len(b)) for n, b in got][:6], [(n, len(b)) for n, b in want][:6])})
                out = os.path.join(d, "o%d" % si)
                with py7zr.SevenZipFile(src()) as z:
                    z.extract(path=out, targets=tobj)
                gotd = {p: rec["data"] for p, rec in (pz.walk_tree(out) if os.path.isdir(out) else {}).items() if rec["kind"] == "file"}
                wantd = {where_d[i]: datas[i] for i in chosen}
                if gotd != wantd:
                    viol.append({"key": "respelled/disk-delivery-depends-on-selection", "what": "%s creates %r; extractall creates these members as %r" % (
                        tag, {k: len(v) for k, v in sorted(gotd.items())[:6]}, {k: len(v) for k, v in sorted(wantd.items())[:6]})})
            except Exception as e:
                viol.append({"key": "respelled/raises/%s" % type(e).__name__, "what": "%s raised %s" % (tag, pz.exc_sig(e))})
            cells.add("respelled|f%d|T%s|%s" % (nf, "all" if len(T) == len(distinct) else "some", "dup" if len(distinct) < len(mem) else "spellings"))
            if len(viol) > 6:
                break
    if viol:
        seen = {}
        for v in viol:
            seen.setdefault(v["key"], v)
        return K.result("violated", violations=list(seen.values()), cells=sorted(cells), obs=obs, sample={"names": mem})
    return K.result("held", cells=sorted(cells), obs=obs, sample={"names": mem})


def _build(case, d):
    import py7zr

    mem = [(n, k, bytes.fromhex(h)) for n, k, h in case["members"]]
    nf = case["folders"]
    files = [m for m in mem if m[1] == "file"]
    if case["writer"] == "py":
        # py7zr writes one folder per session; directories/empty files via a scratch tree would fix the order, so use writestr
        # for files and empty files (stored as zero-length streams) and ref for directories: py writer only when no dir entries.
        if any(k == "dir" for _, k, _ in mem):
            case = dict(case, writer="ref")
    if case["writer"] == "py":
        filt = {"LZMA2": [{"id": py7zr.FILTER_LZMA2, "preset": 1}], "COPY": [{"id": py7zr.FILTER_COPY}],
                "BCJ+LZMA2": [{"id": py7zr.FILTER_X86}, {"id": py7zr.FILTER_LZMA2, "preset": 1}], "ZSTD": [{"id": py7zr.FILTER_ZSTD, "level": 1}]}[case["chain"]]
        buf = io.BytesIO()
        per = max(1, (len(mem) + nf - 1) // nf)
        for s in range(0, len(mem), per):
            with py7zr.SevenZipFile(buf, "w" if s == 0 else "a", filters=filt) as z:
                for n, k, b in mem[s : s + per]:
                    z.writestr(b, n)
            buf.seek(0)
        return mem, buf.getvalue()
    chain = {"LZMA2": [{"m": "LZMA2"}], "COPY": [{"m": "COPY"}], "BCJ+LZMA2": [{"m": "BCJ"}, {"m": "LZMA2"}], "ZSTD": [{"m": "ZStandard"}]}[case["chain"]]
    members = []
    # empty-stream entries after the stream entries of the last folder? keep the given order but make it legal for py7zr's
    # multi-folder reader: empty-stream entries first (interleaving is C06's feature, not this property's)
    order = [m for m in mem if m[1] != "file"] + files if nf > 1 else mem
    for i, (n, k, b) in enumerate(order):
        if k == "dir":
            # some writers store directory names with a trailing slash
            members.append({"name": n + ("/" if case.get("dirslash") else ""), "kind": "dir", "attributes": 0x10 | 0x8000 | (0o040755 << 16), "mtime": 132000000000000000 + i})
        elif k == "emptyfile":
            members.append({"name": n, "kind": "emptyfile", "attributes": 0x20 | 0x8000 | (0o100644 << 16), "mtime": 132000000000000000 + i})
        else:
            members.append({"name": n, "kind": "file", "data": b, "attributes": 0x20 | 0x8000 | (0o100644 << 16), "mtime": 132000000000000000 + i})
    ns = len(files)
    parts = [ns // nf + (1 if i < ns % nf else 0) for i in range(nf)] if ns else []
    lay = {"folders": [{"n": p, "chain": chain, "crc": "sub"} for p in parts if p], "header": "lzma+crc"}
    if len(members) % 3 == 0:
        # a third of the reference-written archives keep their packed streams away from the signature header (PackPos > 0):
        # skipping to a selected member must start from there (see seed C12c: one call site that forgets PackPos)
        lay["packpos"] = 37
    if case.get("dirslash"):
        order = [((n + "/") if k == "dir" else n, k, b) for n, k, b in order]
    return order, W.build(members, lay)


def sel(names_kinds, targets, recursive):
    """The model: a trailing slash is immaterial on a target and on a stored name (other writers store directories as 'name/');
    beneath a named directory = the name continues with '/' after the target."""
    t = {x[:-1] if x.endswith("/") else x for x in targets}
    out = []
    for n, k in names_kinds:
        bare = n[:-1] if n.endswith("/") else n
        if bare in t:
            out.append(n)
        elif recursive and any(n.startswith(x + "/") for x in t):
            out.append(n)
    return out


def run_case(case):
    import py7zr

    if case["mode"] == "history":
        return _run_history(case)
    if case["mode"] == "respelled":
        return _run_respelled(case)
    viol = []
    obs = {"selective_extractions": 0, "members_compared": 0, "archives": 1}
    cells = set()
    r = random.Random(case["seed"])
    with pz.scratch("vf-c09-") as d:
        mem, data = _build(case, d)
        names = [n for n, _, _ in mem]
        nk = [(n, k) for n, k, _ in mem]
        path = os.path.join(d, "a.7z")
        with open(path, "wb") as f:
            f.write(data)

        def src():
            return path if case["open"] == "path" else io.BytesIO(data)

        # full extraction = reference for bytes
        try:
            gn, full = pz.read_mem(src())
        except Exception as e:
            return K.result("held", cell="skip-unreadable", nontrivial=False, obs={"skipped_unreadable": 1}, sample={"skip": pz.exc_sig(e)})
        if gn != names:
            return K.result("held", cell="skip-names", nontrivial=False, obs={"skipped_unreadable": 1})
        subsets = []
        if case["mode"] == "all":
            for k in range(0, len(names) + 1):
                subsets += [list(c) for c in itertools.combinations(names, k)]
        else:
            for _ in range(150):
                subsets.append(r.sample(names, r.randint(0, len(names))))
        # names that are not members but share leading characters with members (or are empty / a bare separator)
        near = sorted({n[:k] for n in names for k in (1, len(n) // 2, len(n) - 1) if 0 < k < len(n)} | {(n.rsplit("/", 1)[0] + "/" + n.rsplit("/", 1)[1][:1]) for n in names if "/" in n} | {"", ".", "./"})
        near = [x for x in near if x.rstrip("/") not in {n.rstrip("/") for n in names}]
        for si, T in enumerate(subsets):
            for recursive in (False, True, None):
                if recursive is None and si % 4:
                    continue
                targets = list(T)
                absent = (si % 3 == 0)
                if absent:
                    targets.append("no-such-member")
                    targets.append("d0/nothing")
                    if near:
                        targets.append(near[si % len(near)])
                        targets.append(near[(si * 7 + 3) % len(near)])
                if si % 2:
                    targets = [t + "/" if (i + si) % 2 else t for i, t in enumerate(targets)]
                tobj = set(targets) if si % 4 >= 2 else list(targets)
                want = sel(nk, targets, recursive)
                sink = "factory" if (si + (1 if recursive else 0)) % 2 == 0 else "disk"
                obs["selective_extractions"] += 1
                tag = "T=%r recursive=%s sink=%s (%s, %d folders)" % (targets[:5], recursive, sink, case["writer"], case["folders"])
                try:
                    if sink == "factory":
                        fac = pz.CollectFactory()
                        ghost = os.path.join(d, "ghost%d" % si, "deep") if si % 5 == 0 else None
                        with py7zr.SevenZipFile(src()) as z:
                            if ghost:
                                z.extract(path=ghost, targets=tobj, recursive=recursive, factory=fac)
                            else:
                                z.extract(targets=tobj, recursive=recursive, factory=fac)
                        got = fac.as_dict()
                        if ghost:
                            obs["factory_with_path"] = obs.get("factory_with_path", 0) + 1
                            if os.path.exists(os.path.dirname(ghost)):
                                viol.append({"key": "factory-sink-creates-directory", "what": "%s: extract(path=P, factory=F) created %r on disk" % (tag, os.path.relpath(ghost, d))})
                            got = {(k[len(ghost) + 1:] if k.startswith(ghost + "/") else k): v for k, v in got.items()}
                        want_files = {n: full[n] for n in want if n in full}
                        obs["members_compared"] += len(want_files)
                        if set(got) != set(want_files):
                            missing = sorted(set(want_files) - set(got))
                            extra = sorted(set(got) - set(want_files))
                            viol.append({"key": "selection-differs/%s/%s" % ("missing" if missing else "extra", "recursive" if recursive else ("flat" if recursive is False else "recursive=None")),
                                         "what": "%s: delivered %r, model selects %r" % (tag, sorted(got)[:6], sorted(want_files)[:6])})
                        else:
                            for n, b in want_files.items():
                                if got[n] != b:
                                    viol.append({"key": "bytes-differ-from-extractall", "what": "%s: %r delivered %d bytes (crc %08x), extractall delivers %d (crc %08x)" % (
                                        tag, n, len(got[n]), pz.crc(got[n]), len(b), pz.crc(b))})
                                    break
                    else:
                        out = os.path.join(d, "o%d_%s" % (si, recursive))
                        with py7zr.SevenZipFile(src()) as z:
                            z.extract(path=out, targets=tobj, recursive=recursive)
                        tree = pz.walk_tree(out) if os.path.isdir(out) else {}
                        allowed_dirs = set()
                        for n in want:
                            parts = n.rstrip("/").split("/")
                            for i in range(1, len(parts)):
                                allowed_dirs.add("/".join(parts[:i]))
                        kinds = dict(nk)
                        for n in want:
                            obs["members_compared"] += 1
                            rec = tree.get(n.rstrip("/"))
                            if rec is None:
                                viol.append({"key": "selected-member-not-created/%s" % kinds[n], "what": "%s: %r (%s) selected but not created" % (tag, n, kinds[n])})
                                break
                            if kinds[n] == "dir":
                                if rec["kind"] != "dir":
                                    viol.append({"key": "disk-kind", "what": "%s: %r should be a directory" % (tag, n)})
                            elif rec["kind"] != "file" or rec["data"] != full.get(n, b""):
                                viol.append({"key": "bytes-differ-from-extractall", "what": "%s: %r on disk differs from extractall's bytes" % (tag, n)})
                                break
                        want_bare = {n.rstrip("/") for n in want}
                        for p, rec in tree.items():
                            if p in want_bare:
                                continue
                            if rec["kind"] == "dir" and p in allowed_dirs:
                                continue
                            viol.append({"key": "unselected-created/%s" % rec["kind"], "what": "%s: %r (%s) created although not selected and not a needed parent" % (tag, p, rec["kind"])})
                            break
                except Exception as e:
                    viol.append({"key": "raises/%s" % type(e).__name__, "what": "%s raised %s" % (tag, pz.exc_sig(e))})
                cells.add("%s|f%d|T%s|%s|%s|%s" % (case["writer"], case["folders"], "0" if not T else ("all" if len(T) == len(names) else "some"), "rec" if recursive else ("flat" if recursive is False else "none"), sink, "absent" if absent else "-"))
                if len(viol) > 12:
                    break
            if len(viol) > 12:
                break
    sample = {"members": [(n, k) for n, k in nk], "folders": case["folders"], "writer": case["writer"], "subsets": len(subsets)}
    if viol:
        seen = {}
        for v in viol:
            seen.setdefault(v["key"], v)
        return K.result("violated", violations=list(seen.values()), cells=sorted(cells), obs=obs, sample=sample)
    return K.result("held", cells=sorted(cells), obs=obs, sample=sample)


def on_abnormal(case, kind, info):
    if kind in ("cpu-budget", "deadlock"):
        return K.result("violated", key="hang/" + kind, what="selective extraction did not finish (%s)" % kind)
    return None
