"""C10 — listings tell the truth: listing calls vs extraction of the same archive vs the reference reader."""
import glob
import io
import os
import random

from vf.core import pz
from vf.gen import basic as G
from vf.gen import layouts as L
from vf.gen import trees as T
from vf.props import common as K
from vf.props.c06 import FIXTURE_PW, FIXTURE_SKIP
from vf.ref7z import reader as R
from vf.ref7z import writer as W

LEVEL = "exploration"
CASE_TIMEOUT = 300
CPU_BUDGET = 120
REQUIRED_OBS = ["archives_listed", "members_checked", "getinfo_calls", "archiveinfo_checked"]
RULE = ("archives written by py7zr (every chain, header mode, +-password, 1..2 sessions, trees with directories/symlinks/empty files), by the "
        "reference writer (layout features) and fixtures; opened by path. Oracle: getnames==namelist==list==files (stored order per reference "
        "reader); list().uncompressed == len(extracted bytes); crc32 == CRC32(extracted bytes); is_directory == extraction creates a directory; "
        "(archives whose coders nobody here can decode, e.g. BCJ2 fixtures: names, blocks, solid and size are still compared with the parsed header) "
        "stored names of 65535..70001 units at each position, the summary of an archive opened by a relative name after chdir(), folders with coders known by id only (ARM64, RISC-V, SWAP2, Lizard: one name per coder); getinfo(name), getinfo(name+'/') find every listed name, KeyError otherwise; archiveinfo size/blocks/solid/method_names/uncompressed vs "
        "reference reader; needs_password == (AES coder present or password supplied). Archives py7zr cannot open/extract are C06's business and "
        "are skipped here. Cell = (origin, chain/features, header, aes, kinds).")
ASSUMPTIONS = ["the reference reader's view of folders/coders is the ground truth for the summary", "archiveinfo() is evaluated for the archive opened by path and, for its size, opened from a stream"]

PY_NAME = {"COPY": "COPY", "DELTA": "DELTA", "BCJ": "BCJ", "PPC": "PPC", "IA64": "IA64", "ARM": "ARM", "ARMT": "ARMT", "SPARC": "SPARC", "LZMA": "LZMA",
           "LZMA2": "LZMA2", "PPMd": "PPMd", "BZip2": "BZip2", "DEFLATE": "DEFLATE", "DEFLATE64": "DEFLATE64", "ZStandard": "ZStandard", "Brotli": "Brotli",
           "7zAES": "7zAES", "BCJ2": "BCJ2*", "LZ4": "LZ4*"}


def cases(rng, tier):
    out = []
    n = 320 if tier == "quick" else 6000
    chains = G.all_chains(rng)
    for i, ch in enumerate(chains):
        pw = "secret" if any(c["f"] == "AES" for c in ch) else (rng.choice([None, None, "pw"]))
        out.append({"kind": "py", "members": G.member_list(rng, n=rng.choice([1, 2, 4]), max_len=20000), "chain": ch, "password": pw,
                    "header": rng.choice(["encoded", "raw"] + (["encrypted_ctor"] if pw else [])), "append": None})
    out.append({"kind": "py", "members": [], "chain": [{"f": "LZMA2", "preset": 1}], "password": None, "header": "encoded", "append": None})
    out.append({"kind": "py", "members": [], "chain": [{"f": "LZMA2", "preset": 1}], "password": None, "header": "raw", "append": None})
    while len(out) < n:
        r = rng.random()
        if r < 0.35:
            ch = G.chain(rng)
            pw = rng.choice(G.PASSWORDS) if (any(c["f"] == "AES" for c in ch) or rng.random() < 0.15) else None
            app = None
            if rng.random() < 0.4:
                ch2 = G.chain(rng, aes=(None if pw is not None else False))
                if any(c["f"] == "DEFLATE64" for c in ch2):  # py7zr refuses Deflate64 on append
                    ch2 = G.chain(rng, comp="DEFLATE", aes=(None if pw is not None else False))
                app = {"members": G.member_list(rng, n=rng.choice([1, 2, 3]), max_len=10000), "chain": ch2}
                for m in app["members"]:
                    m["name"] = "app/" + m["name"]
            out.append({"kind": "py", "members": G.member_list(rng, max_len=30000), "chain": ch, "password": pw,
                        "header": rng.choice(["encoded", "raw"] + (["encrypted_ctor", "encrypted_setter"] if pw else [])), "append": app})
        elif r < 0.55:
            out.append({"kind": "tree", "tree": T.tree(rng, max_entries=10, max_len=6000), "chain": G.chain(rng, aes=False), "password": rng.choice([None, None, "pw"])})
        else:
            c = L.gen_case(rng, max_len=8000, force={"packpos": rng.choice([0, 0, 9]), "crc": rng.choice(["sub", "sub", "folder", "none", "both", "partial"]),
                                                        "empty_folder": rng.random() < 0.3})
            for i, chn in enumerate(c["features"]["chains"]):
                if any(x.get("newid") for x in chn):
                    c["features"]["chains"][i] = [{"m": "LZMA2"}]
            out.append({"kind": "ref", "case": c})
    # histories whose sessions differ in encryption: needs_password() must look at every folder
    for i in range(12 if tier == "quick" else 200):
        pattern = rng.choice([["pw", None], [None, "pw"], ["pw", "pw", None], [None, "pw", None], ["pw", None, None]])
        out.append({"kind": "mixed", "pattern": pattern, "sessions": [G.member_list(rng, n=rng.choice([1, 2]), max_len=3000) for _ in pattern], "seed": rng.getrandbits(30)})
    # fourth hunt: a stored name of 65536 units or more; the summary of an archive opened by a relative name after chdir(); coders known by id only
    for i, units in enumerate([65535, 65536, 65537, 70001] if tier == "quick" else [65535, 65536, 65537, 70001, 131072, 200000]):
        out.append({"kind": "special", "shape": "longname", "units": units, "pos": i % 3})
    for i in range(2 if tier == "quick" else 6):
        out.append({"kind": "special", "shape": "chdir", "variant": i})
    for i, ids in enumerate([["0a"], ["0b"], ["020302"], ["04f71106", "0a"]]):
        out.append({"kind": "special", "shape": "unknown-coder", "ids": ids, "with_lzma2": i != 3})
    root = os.environ.get("VERIF_REPO", "/repo")
    for p in sorted(glob.glob(os.path.join(root, "tests", "data", "*.7z"))):
        if os.path.basename(p) not in FIXTURE_SKIP:
            out.append({"kind": "fixture", "path": p})
    return out


def _check_structure_only(path, data, password, supplied_password, viol, obs):
    """Archives whose coders neither py7zr nor the reference reader can decode (BCJ2 ...): the statements a listing makes about
    structure (names, folder count, solid flag, coder names) are still checkable against the parsed header."""
    import py7zr

    try:
        arc = R.parse(data, password, decode=False, strict_tiling=False)
    except Exception:
        return
    try:
        z = py7zr.SevenZipFile(path, "r", password=supplied_password)
    except Exception:
        return
    try:
        obs["structure_only_archives"] = obs.get("structure_only_archives", 0) + 1
        ref_names = [(m.name or "").replace("\\", "/") for m in arc.members]
        gn = z.getnames()
        if gn != ref_names and all(ref_names):
            viol.append({"key": "names-not-in-stored-order", "what": "getnames %r, stored order %r" % (gn[:6], ref_names[:6])})
        st = arc.streams
        try:
            ai = z.archiveinfo()
        except Exception as e:
            viol.append({"key": "archiveinfo-raises/%s/undecodable" % type(e).__name__, "what": "archiveinfo() raised %s" % pz.exc_sig(e)})
            return
        obs["archiveinfo_checked"] = obs.get("archiveinfo_checked", 0) + 1
        nf = len(st.folders) if st else 0
        if ai.blocks != nf:
            viol.append({"key": "archiveinfo-blocks", "what": "blocks=%r, archive has %d folders (packed streams: %d)" % (ai.blocks, nf, len(st.pack_sizes) if st else 0)})
        solid = bool(st and any(f.num_substreams > 1 for f in st.folders))
        if bool(ai.solid) != solid:
            viol.append({"key": "archiveinfo-solid", "what": "solid=%r, folders hold %r substreams" % (ai.solid, [f.num_substreams for f in st.folders] if st else [])})
        if ai.size != len(data):
            viol.append({"key": "archiveinfo-size", "what": "archiveinfo().size=%r, file has %d bytes" % (ai.size, len(data))})
    finally:
        try:
            z.close()
        except Exception:
            pass


def _run_special(case):
    import py7zr

    viol = []
    obs = {k: 0 for k in REQUIRED_OBS}
    obs["special_shapes"] = 1
    shape = case["shape"]

    def fmem(name, data, i=0):
        return {"name": name, "kind": "file", "data": data, "attributes": 0x20, "mtime": 132000000000000000 + i}

    with pz.scratch("vf-c10s-") as d:
        path = os.path.join(d, "s.7z")
        if shape == "longname":
            u = case["units"]
            long = ("d/" * (u // 2))[: u - 2] + "ab"
            names = ["a.txt", "b.txt", "c.txt"]
            names.insert(case["pos"], long)
            mem = [fmem(n, ("content of member %d " % i).encode() * (i + 3), i) for i, n in enumerate(names)]
            with open(path, "wb") as f:
                f.write(W.build(mem, {"folders": [{"n": len(mem), "chain": [{"m": "COPY"}], "crc": "sub"}], "header": "raw"}))
            _check_archive(path, None, None, viol, obs, d, "ref")
            cell = "special|longname|%d" % case["units"]
        elif shape == "chdir":
            cwd0 = os.getcwd()
            for sub, n in (("a", 1), ("b", 40)):
                os.mkdir(os.path.join(d, sub))
                with py7zr.SevenZipFile(os.path.join(d, sub, "x.7z"), "w") as z:
                    for i in range(n):
                        z.writestr(b"member %d" % i * 20, "m%d.txt" % i)
            os.mkdir(os.path.join(d, "c"))
            want = os.path.getsize(os.path.join(d, "a", "x.7z"))
            try:
                os.chdir(os.path.join(d, "a"))
                z = py7zr.SevenZipFile("x.7z" if case["variant"] % 2 == 0 else os.path.join(".", "x.7z"))
                try:
                    for where in ("b", "c"):
                        os.chdir(os.path.join(d, where))
                        obs["archiveinfo_checked"] += 1
                        obs["archives_listed"] += 1
                        try:
                            ai = z.archiveinfo()
                            if ai.size != want or ai.stat.st_size != want:
                                viol.append({"key": "archiveinfo-size/after-chdir", "what": "archive opened as 'x.7z' (%d bytes), then chdir to a directory %s: archiveinfo() reports size %r / st_size %r" % (
                                    want, "holding another x.7z" if where == "b" else "without an x.7z", ai.size, ai.stat.st_size)})
                        except Exception as e:
                            viol.append({"key": "archiveinfo-raises/%s/after-chdir" % type(e).__name__, "what": "archive opened as 'x.7z', then chdir: archiveinfo() raised %s while getnames() gives %d names" % (pz.exc_sig(e), len(z.getnames()))})
                        obs["members_checked"] += len(z.getnames())
                        obs["getinfo_calls"] += 1
                        z.getinfo("m0.txt")
                finally:
                    z.close()
            finally:
                os.chdir(cwd0)
            cell = "special|chdir"
        else:
            chain = [{"m": "RAWID", "id": i} for i in case["ids"]]
            if case["with_lzma2"]:
                chain = [chain[0], {"m": "LZMA2"}]
            mem = [fmem("prog.bin", b"\x7fELF" + bytes(300)), fmem("b.txt", b"bbb" * 50, 1)]
            data = W.build(mem, {"folders": [{"n": 2, "chain": chain, "crc": "sub"}], "header": "raw"})
            with open(path, "wb") as f:
                f.write(data)
            lay = R.parse(data, None, decode=False, strict_tiling=False)
            want = sorted({PY_NAME.get(nm, nm.upper() + "*") for f_ in lay.streams.folders for nm in f_.method_names()})
            obs["archives_listed"] += 1
            try:
                with py7zr.SevenZipFile(path) as z:
                    ai = z.archiveinfo()
                    obs["archiveinfo_checked"] += 1
                    obs["members_checked"] += len(z.getnames())
                    obs["getinfo_calls"] += 1
                    z.getinfo("b.txt")
                got = sorted(set(ai.method_names))
                # a coder the library has no name for may be spelled in any way that shows it: one name per coder present is what is required
                if len(got) != len(want) or not set(x for x in want if not x.endswith("*") or x in PY_NAME.values()) <= set(got):
                    viol.append({"key": "archiveinfo-methods/unknown-coder-dropped", "what": "folder coded with ids %r: method_names=%r (%d names for %d coders)" % (
                        [c.method.hex() for f_ in lay.streams.folders for c in f_.coders], ai.method_names, len(got), len(want))})
                if ai.blocks != 1:
                    viol.append({"key": "archiveinfo-blocks", "what": "blocks=%r, archive has 1 folder" % ai.blocks})
            except Exception as e:
                # refusing to open an archive with an unknown coder is a legitimate answer: nothing is listed then
                obs["unknown_coder_refused"] = 1
            cell = "special|unknown-coder|%s" % "+".join(case["ids"])
    sample = {"special": shape}
    if viol:
        seen = {}
        for v in viol:
            seen.setdefault(v["key"], v)
        return K.result("violated", violations=list(seen.values()), cell=cell, obs=obs, sample=sample)
    return K.result("held", cell=cell, obs=obs, sample=sample)


def _check_archive(path, password, supplied_password, viol, obs, d, origin):
    """All listing-vs-truth comparisons on one archive file."""
    import py7zr

    with open(path, "rb") as f:
        data = f.read()
    try:
        arc = R.parse(data, password, strict_tiling=False)
    except R.RefUnsupported:
        obs["skipped_unsupported"] = obs.get("skipped_unsupported", 0) + 1
        _check_structure_only(path, data, password, supplied_password, viol, obs)
        return "skip"
    except Exception as e:
        obs["skipped_ref_cannot_read"] = obs.get("skipped_ref_cannot_read", 0) + 1
        return "skip"
    # ground truth by extraction (py7zr) -- failures here are not this property's business
    try:
        fac = pz.CollectFactory()
        with py7zr.SevenZipFile(path, "r", password=supplied_password) as z:
            z.extractall(factory=fac)
        mem = fac.as_dict()
        out = os.path.join(d, "x-%d" % random.getrandbits(30))
        disk = None
        names_fs_ok = K.fs_safe_names([m.name or "" for m in arc.members]) and all((m.name or "") and not m.name.startswith("/") for m in arc.members)
        if names_fs_ok:
            with py7zr.SevenZipFile(path, "r", password=supplied_password) as z:
                z.extractall(out)
            disk = pz.walk_tree(out)
            T.unlock(out)
    except Exception as e:
        obs["skipped_extraction_fails"] = obs.get("skipped_extraction_fails", 0) + 1
        return "skip"
    try:
        z = py7zr.SevenZipFile(path, "r", password=supplied_password)
    except Exception:
        return "skip"
    try:
        obs["archives_listed"] = obs.get("archives_listed", 0) + 1
        gn = z.getnames()
        nl = z.namelist()
        ls = z.list()
        fl = [f.filename for f in z.files]
        ref_names = [(m.name or "").replace("\\", "/") for m in arc.members]
        if not (gn == nl == [x.filename for x in ls] == fl):
            viol.append({"key": "listings-disagree", "what": "getnames %r / namelist %r / list %r / files %r" % (gn[:4], nl[:4], [x.filename for x in ls][:4], fl[:4])})
        if gn != ref_names and all(ref_names):
            viol.append({"key": "names-not-in-stored-order", "what": "getnames %r, stored order %r" % (gn[:6], ref_names[:6])})
        dup = len(set(gn)) != len(gn)
        for i, fi in enumerate(ls):
            obs["members_checked"] = obs.get("members_checked", 0) + 1
            rm = arc.members[i] if i < len(arc.members) else None
            key = fi.filename.lstrip("/")
            if not fi.is_directory and not dup:
                if key in mem:
                    blob = mem[key]
                    if fi.uncompressed != len(blob):
                        viol.append({"key": "size-vs-extraction", "what": "%r: list() reports %r bytes, extraction delivers %d" % (fi.filename, fi.uncompressed, len(blob))})
                    if fi.crc32 is not None and fi.crc32 != pz.crc(blob):
                        viol.append({"key": "crc-vs-extraction", "what": "%r: reported crc %08x, CRC32 of extracted bytes %08x" % (fi.filename, fi.crc32, pz.crc(blob))})
                    if fi.crc32 is None and rm is not None and rm.crc is not None:
                        # not reporting a CRC is not a false statement about the archive: diagnostic only
                        obs["diag_crc_stored_but_not_listed"] = obs.get("diag_crc_stored_but_not_listed", 0) + 1
                if rm is not None and rm.has_stream and rm.data is not None and fi.uncompressed != len(rm.data):
                    viol.append({"key": "size-vs-reference", "what": "%r: list() reports %r bytes, archive holds %d" % (fi.filename, fi.uncompressed, len(rm.data))})
            if disk is not None and not dup:
                rec = disk.get(fi.filename.rstrip("/"))
                if rec is not None and (rec["kind"] == "dir") != bool(fi.is_directory):
                    viol.append({"key": "isdir-vs-extraction", "what": "%r: is_directory=%s but extraction created a %s" % (fi.filename, fi.is_directory, rec["kind"])})
            # a member without a stored modification time is listed without one
            if rm is not None:
                obs["list_times_checked"] = obs.get("list_times_checked", 0) + 1
                if rm.mtime is None and fi.creationtime is not None:
                    viol.append({"key": "list-invents-mtime", "what": "%r has no modification time in the archive, list() reports %r" % (fi.filename, fi.creationtime)})
            # getinfo
            if not dup:
                for probe in (fi.filename, fi.filename.rstrip("/") + "/", fi.filename.rstrip("/")):
                    obs["getinfo_calls"] = obs.get("getinfo_calls", 0) + 1
                    try:
                        info = z.getinfo(probe)
                        if info.filename != fi.filename:
                            viol.append({"key": "getinfo-wrong-member", "what": "getinfo(%r) returned %r" % (probe, info.filename)})
                    except KeyError:
                        viol.append({"key": "getinfo-misses-listed%s" % ("/stored-with-slash" if fi.filename.endswith("/") else ""), "what": "getinfo(%r) raised KeyError for a listed name" % probe})
                    except Exception as e:
                        viol.append({"key": "getinfo-raises/%s" % type(e).__name__, "what": "getinfo(%r): %s" % (probe, pz.exc_sig(e))})
        for bogus in ("no/such/member-xyzzy", gn[0] + "-nope" if gn else "x"):
            if bogus in gn:
                continue
            obs["getinfo_calls"] = obs.get("getinfo_calls", 0) + 1
            try:
                z.getinfo(bogus)
                viol.append({"key": "getinfo-finds-unlisted", "what": "getinfo(%r) returned a member" % bogus})
            except KeyError:
                pass
            except Exception as e:
                viol.append({"key": "getinfo-raises/%s" % type(e).__name__, "what": "getinfo(%r): %s" % (bogus, pz.exc_sig(e))})
        # needs_password
        has_aes = bool(arc.streams and any(c.method == R.codecs.M_AES for f in arc.streams.folders for c in f.coders))
        want_np = has_aes or supplied_password is not None
        if bool(z.needs_password()) != want_np:
            viol.append({"key": "needs_password-wrong", "what": "needs_password()=%s; AES coder in main streams=%s, password supplied=%s" % (z.needs_password(), has_aes, supplied_password is not None)})
        # summary, also for the same bytes opened from a stream
        try:
            with py7zr.SevenZipFile(io.BytesIO(data), "r", password=supplied_password) as zs:
                ais = zs.archiveinfo()
            obs["archiveinfo_on_stream"] = obs.get("archiveinfo_on_stream", 0) + 1
            if ais.size != len(data):
                viol.append({"key": "archiveinfo-size/stream", "what": "opened from a stream: archiveinfo().size=%r, archive has %d bytes" % (ais.size, len(data))})
        except Exception as e:
            viol.append({"key": "archiveinfo-raises/%s/stream" % type(e).__name__, "what": "opened from a stream: archiveinfo() raised %s" % pz.exc_sig(e)})
        try:
            ai = z.archiveinfo()
            obs["archiveinfo_checked"] = obs.get("archiveinfo_checked", 0) + 1
            st = arc.streams
            if ai.size != len(data):
                viol.append({"key": "archiveinfo-size", "what": "archiveinfo().size=%r, file has %d bytes" % (ai.size, len(data))})
            total = sum(m.size for m in arc.members)
            if ai.uncompressed != total:
                viol.append({"key": "archiveinfo-uncompressed", "what": "archiveinfo().uncompressed=%r, members sum to %d" % (ai.uncompressed, total)})
            nf = len(st.folders) if st else 0
            if ai.blocks != nf:
                viol.append({"key": "archiveinfo-blocks", "what": "blocks=%r, archive has %d folders" % (ai.blocks, nf)})
            solid = bool(st and any(f.num_substreams > 1 for f in st.folders))
            if bool(ai.solid) != solid:
                viol.append({"key": "archiveinfo-solid", "what": "solid=%r, folders hold %r substreams" % (ai.solid, [f.num_substreams for f in st.folders] if st else [])})
            want_m = sorted({PY_NAME.get(nm, nm) for f in (st.folders if st else []) for nm in f.method_names()})
            got_m = sorted(set(ai.method_names))
            if got_m != want_m:
                missing = sorted(set(want_m) - set(got_m))
                extra = sorted(set(got_m) - set(want_m))
                viol.append({"key": "archiveinfo-methods/missing=%s/extra=%s" % (",".join(missing) or "-", ",".join(extra) or "-"),
                             "what": "method_names=%r, coders present %r" % (ai.method_names, want_m)})
        except Exception as e:
            kind = "empty-archive" if not arc.members else ("no-main-streams" if not arc.streams else "other")
            viol.append({"key": "archiveinfo-raises/%s/%s" % (type(e).__name__, kind), "what": "archiveinfo() raised %s (%d members, %s)" % (pz.exc_sig(e), len(arc.members), kind)})
    finally:
        try:
            z.close()
        except Exception:
            pass
    return "ok"


def run_case(case):
    import py7zr

    if case["kind"] == "special":
        return _run_special(case)
    viol, obs = [], {}
    with pz.scratch("vf-c10-") as d:
        path = os.path.join(d, "a.7z")
        pw = None
        supplied = None
        try:
            if case["kind"] == "py":
                pw = supplied = case["password"]
                K.write_session(d, K.mat_members(case["members"]), case["chain"], pw, case["header"], "path", "writestr", path=path)
                if case.get("append"):
                    try:
                        K.write_session(d, K.mat_members(case["append"]["members"]), case["append"]["chain"], pw, case["header"], "path", "writestr", mode="a", path=path)
                    except K.Rejected:
                        pass
                cell = "py|%s|%s|%s|%s" % (G.chain_label(case["chain"]), case["header"], "pw" if pw is not None else "-", "app" if case.get("append") else "1")
                sample = {"origin": "py7zr", "chain": G.chain_label(case["chain"]), "header": case["header"], "members": len(case["members"])}
            elif case["kind"] == "tree":
                pw = supplied = case["password"]
                root = os.path.join(d, "src")
                T.make(root, case["tree"])
                try:
                    with py7zr.SevenZipFile(path, "w", filters=G.resolve_chain(case["chain"]), password=pw) as z:
                        z.writeall(root, arcname="t")
                except py7zr.exceptions.UnsupportedCompressionMethodError as e:
                    raise K.Rejected(str(e))
                finally:
                    T.unlock(root)
                kinds = sorted({e["kind"] for e in case["tree"]})
                cell = "tree|%s|%s|%s" % (G.chain_label(case["chain"]), "pw" if pw is not None else "-", ",".join(kinds))
                sample = {"origin": "py7zr-writeall", "entries": len(case["tree"]), "kinds": kinds}
            elif case["kind"] == "mixed":
                for si, (pwd, mem) in enumerate(zip(case["pattern"], case["sessions"])):
                    for m in mem:
                        m["name"] = "s%d/%s" % (si, m["name"])
                    with py7zr.SevenZipFile(path, "w" if si == 0 else "a", password=pwd) as z:
                        for n_, b_ in K.mat_members(mem):
                            z.writestr(b_, n_)
                pw = "pw"
                supplied = None
                cell = "mixed|" + "+".join("E" if x else "-" for x in case["pattern"])
                sample = {"origin": "py7zr, sessions with/without password", "pattern": case["pattern"]}
                # opened WITHOUT a password: extraction is impossible, but the flag must still be true
                with open(path, "rb") as f:
                    lay = R.parse(f.read(), None, decode=False, strict_tiling=False)
                has_aes = any(c.method == R.codecs.M_AES for f_ in lay.streams.folders for c in f_.coders)
                with py7zr.SevenZipFile(path, "r") as z:
                    obs["needs_password_without_extraction"] = obs.get("needs_password_without_extraction", 0) + 1
                    if bool(z.needs_password()) != has_aes:
                        enc = ["E" if any(c.method == R.codecs.M_AES for c in f_.coders) else "-" for f_ in lay.streams.folders]
                        viol.append({"key": "needs_password-wrong/mixed-folders", "what": "opened without password: needs_password()=%s but folders are %s (E = has 7zAES coder)" % (z.needs_password(), "".join(enc))})
                    names_ = z.getnames()
                    if names_ != [m["name"] for mem in case["sessions"] for m in mem]:
                        viol.append({"key": "names-not-in-stored-order", "what": "mixed history lists %r" % names_[:5]})
                supplied = "pw"
            elif case["kind"] == "ref":
                c = case["case"]
                members, layout = L.realise(c)
                pw = supplied = c["password"]
                with open(path, "wb") as f:
                    f.write(W.build(members, layout, password=pw, rng=random.Random(c["seed"])))
                nd = L.non_default_features(c)
                cell = "ref|" + "|".join(sorted(nd)[:6])
                sample = {"origin": "reference writer", "features": sorted(nd)[:10]}
            else:
                base = os.path.basename(case["path"])
                pw = supplied = FIXTURE_PW.get(base)
                with open(case["path"], "rb") as f, open(path, "wb") as g:
                    g.write(f.read())
                cell = "fixture|" + base
                sample = {"origin": "fixture", "file": base}
        except K.Rejected:
            return K.result("held", cell="rejected", nontrivial=False, obs={"rejected_by_writer": 1})
        except Exception as e:
            # producing the archive failed: whatever that is (C01/C07 judge write sessions), there is no listing to judge here
            if K.rooted_in_rejection(e):
                return K.result("held", cell="rejected", nontrivial=False, obs={"rejected_by_writer": 1})
            return K.result("held", cell="skip-write-raises", nontrivial=False, obs={"skipped_write_raises": 1}, sample={"skip": pz.exc_sig(e)})
        st = _check_archive(path, pw, supplied, viol, obs, d, case["kind"])
        # a password supplied for an unencrypted archive: needs_password must still be true
        if st == "ok" and supplied is None and case["kind"] in ("py", "fixture") and not viol:
            try:
                with py7zr.SevenZipFile(path, "r", password="unneeded") as z:
                    if not z.needs_password():
                        viol.append({"key": "needs_password-ignores-supplied", "what": "needs_password() is False although a password was supplied"})
            except Exception:
                pass
    if st == "skip" and not viol:
        return K.result("held", cell=("structure-only|" if obs.get("structure_only_archives") else "skip|") + cell.split("|")[0], nontrivial=bool(obs.get("structure_only_archives")), obs=obs, sample=sample)
    if viol:
        seen = {}
        for v in viol:
            seen.setdefault(v["key"], v)
        return K.result("violated", violations=list(seen.values()), cell=cell, obs=obs, sample=sample)
    return K.result("held", cell=cell, obs=obs, sample=sample)
