"""C11 — encryption: nothing leaks, nothing is delivered without the right password.
Artefact scan + AES/IV event log (monitor on get_random_bytes / AES.new) + outcome classes of read sessions."""
import io
import os
import random

from vf.core import pz
from vf.gen import basic as G
from vf.props import common as K
from vf.ref7z import codecs as RC
from vf.ref7z import reader as R

LEVEL = "exploration"
CASE_TIMEOUT = 600
CPU_BUDGET = 500
REQUIRED_OBS = ["archives_scanned", "plaintext_windows_searched", "aes_new_calls_seen", "random_draws_seen", "no_password_reads", "wrong_password_reads"]
RULE = ("member lists of recognisable high-entropy plaintext (>= 24 bytes) and names >= 6 characters x every chain ending in 7zAES (incl. AES alone, Copy+AES) x "
        "header encryption off / constructor flag / setter x passwords (ASCII, empty, non-BMP, long). Oracle: (1) no 16-byte window of any member's plaintext, nor "
        "of the packed stream the same chain produces without AES, occurs in the archive bytes; (2) with header encryption no member name (UTF-16-LE / UTF-8) occurs "
        "and the reference reader cannot decode the header without a key; (3) two archives from identical input and password share neither IV nor any 16-byte "
        "ciphertext block; (4) every AES.new call is CBC with an IV just drawn from get_random_bytes and equal to the IV stored in the coder properties (event log); "
        "(5) without password: PasswordRequired at open or extract; wrong password (different, prefix, case-changed): the read raises, and a read that completes "
        "never delivers bytes different from the original. Cell = (chain, header mode, password class, member count).")
ASSUMPTIONS = ["plaintext is random tokens: a chance 16-byte match has probability < 2^-100",
               "garbage written to a sink before the error of a failing read is recorded (diag_*), not judged: the statement's 'fails with an error' is what is decided"]

_mon = {"aes": [], "rand": []}
_installed = False


def worker_init():
    global _installed
    if _installed:
        return
    _installed = True
    import py7zr.compressor as C

    o_rand = C.get_random_bytes

    def get_random_bytes(n):
        b = o_rand(n)
        _mon["rand"].append(bytes(b))
        return b

    C.get_random_bytes = get_random_bytes

    class AESProxy:
        """Stands in for the Cryptodome AES module inside py7zr.compressor: records every new()."""

        def __getattr__(self, name):
            return getattr(_real_aes, name)

        def new(self, key, mode, iv=None, *a, **k):
            import sys

            who = type(sys._getframe(1).f_locals.get("self")).__name__
            rec = {"mode": mode, "iv": bytes(iv) if iv is not None else None, "key": bytes(key), "by": who}
            # decryption legitimately re-uses the IV stored in the archive: only encryption is judged for freshness
            (_mon["aes"] if who != "AESDecompressor" else _mon.setdefault("aes_dec", [])).append(rec)
            if who == "AESDecompressor" and mode != _real_aes.MODE_CBC:
                _mon["aes"].append(rec)
            return _real_aes.new(key, mode, iv, *a, **k)

    _real_aes = C.AES
    C.AES = AESProxy()


def _tokens(r, n):
    alphabet = "ABCDEFGHIJKLMNOPQRSTUVWXYZabcdefghijklmnopqrstuvwxyz0123456789"
    return ("".join(r.choice(alphabet) for _ in range(n))).encode()


def cases(rng, tier):
    n = 160 if tier == "quick" else 2500
    out = []
    chains = [c for c in G.all_chains(rng) if any(x["f"] == "AES" for x in c)]
    i = 0
    while len(out) < n:
        ch = chains[i % len(chains)] if i < 2 * len(chains) else G.chain(rng, aes=True)
        i += 1
        out.append({"chain": ch, "header": rng.choice(["encoded", "raw", "encrypted_ctor", "encrypted_setter", "encrypted_ctor+unpacked", "encrypted_setter+unpacked"]), "password": rng.choice(G.PASSWORDS),
                    "nmembers": rng.choice([1, 2, 3]), "sizes": [rng.choice([24, 31, 32, 33, 48, 100, 1000, 5000, 40000]) for _ in range(3)], "seed": rng.getrandbits(32),
                    "append": rng.random() < 0.3, "append_header": rng.choice(["same", "default", "upgrade"])})
    return out


def _names(data, pw):
    import py7zr

    try:
        with py7zr.SevenZipFile(io.BytesIO(data), password=pw) as z:
            return z.getnames()
    except Exception as e:
        return "unreadable: " + pz.exc_sig(e)


def _windows(blob, step):
    for off in range(0, max(1, len(blob) - 15), step):
        w = blob[off : off + 16]
        if len(w) == 16:
            yield w


def run_case(case):
    import py7zr
    from Cryptodome.Cipher import AES as REAL_AES

    base_header = case["header"]
    if case["append"] and case.get("append_header") == "upgrade":
        # the base archive has a readable header; the append session asks for header encryption: the result must have it
        base_header, case = "encoded", dict(case, header="encrypted_ctor")
    r = random.Random(case["seed"])
    members = [("secret-dir/member-%d-%s.dat" % (i, _tokens(r, 8).decode()), _tokens(r, case["sizes"][i])) for i in range(case["nmembers"])]
    pw = case["password"]
    viol = []
    obs = {k: 0 for k in REQUIRED_OBS}
    obs["diag_garbage_before_error"] = 0
    with pz.scratch("vf-c11-") as d:
        arcs = []
        props_ivs = []
        for rep in range(2):
            del _mon["aes"][:]
            del _mon["rand"][:]
            try:
                path, obj, data = K.write_session(d, members, case["chain"], pw, base_header, "bytesio", "writestr")
                if case["append"]:
                    extra = [("secret-dir/appended-%s.dat" % _tokens(r, 6).decode(), _tokens(random.Random(case["seed"] + 1), 64))]
                    # the append session either asks for the same header mode again or says nothing about it (default flags):
                    # names that needed the password before must need it afterwards
                    ah = case["header"] if case.get("append_header", "same") in ("same", "upgrade") else "encoded"
                    path, obj, data = K.write_session(d, extra, case["chain"], pw, ah, "bytesio", "writestr", mode="a", obj=obj)
                    allm = members + extra
                else:
                    allm = members
            except K.Rejected:
                return K.result("held", cell="rejected|" + G.chain_label(case["chain"]), nontrivial=False, obs={"rejected_by_writer": 1})
            except Exception as e:
                return K.result("violated", key="write-raises/%s" % type(e).__name__, what="encrypted write session raised %s (chain %s header %s)" % (pz.exc_sig(e), G.chain_label(case["chain"]), case["header"]),
                                cell="write-fails")
            arcs.append(data)
            # ---- event log: AES.new calls of the write session
            obs["aes_new_calls_seen"] += len(_mon["aes"])
            obs["random_draws_seen"] += len(_mon["rand"])
            draws = list(_mon["rand"])
            for ev in _mon["aes"]:
                if ev["mode"] != REAL_AES.MODE_CBC:
                    viol.append({"key": "aes-mode", "what": "AES.new called with mode %r, not CBC" % ev["mode"]})
                if ev["iv"] is None or ev["iv"] not in [x + bytes(16 - len(x)) for x in draws]:
                    viol.append({"key": "iv-not-from-rng", "what": "AES.new IV %s was not drawn from get_random_bytes in this session" % (ev["iv"].hex() if ev["iv"] else None)})
            if len({e["iv"] for e in _mon["aes"]}) != len(_mon["aes"]):
                viol.append({"key": "iv-reuse-within-archive", "what": "%d AES.new calls share an IV inside one archive" % len(_mon["aes"])})
            # ---- IVs stored in coder properties must be the ones used
            try:
                arc = R.parse(data, pw)
                stored = []
                for f in (arc.streams.folders if arc.streams else []):
                    for c in f.coders:
                        if c.method == RC.M_AES:
                            cyc, salt, iv = RC.parse_aes_props(c.props)
                            stored.append(iv + bytes(16 - len(iv)))
                used = [e["iv"] for e in _mon["aes"]]
                for iv in stored:
                    if iv not in used:
                        viol.append({"key": "iv-props-mismatch", "what": "coder properties store IV %s which no AES.new call of the session used" % iv.hex()})
                props_ivs.append(stored)
                if not stored:
                    viol.append({"key": "no-aes-coder", "what": "archive written with a password and an AES chain holds no 7zAES coder"})
                rn = arc.names()
                if rn != [n for n, _ in allm] or any(m.data != b for m, (_, b) in zip(arc.members, allm)):
                    viol.append({"key": "independent-decrypt-differs", "what": "independent KDF + AES-CBC recover different members"})
            except Exception as e:
                viol.append({"key": "ref-rejects/%s" % type(e).__name__, "what": "reference reader with the password: %s" % pz.exc_sig(e)})
        data = arcs[0]
        obs["archives_scanned"] += 2
        # ---- (1) plaintext and unencrypted-packed-stream windows
        for name, blob in allm:
            for w in _windows(blob, 3):
                obs["plaintext_windows_searched"] += 1
                if w in data:
                    viol.append({"key": "plaintext-leak", "what": "16 bytes of member %r plaintext occur in the archive at offset %d" % (name, data.find(w))})
                    break
        plain_chain = [c for c in case["chain"] if c["f"] != "AES"] or [{"f": "COPY"}]
        try:
            _, _, plain = K.write_session(d, members, plain_chain, None, "raw", "bytesio", "writestr")
            parc = R.parse(plain, None, decode=False, strict_tiling=False)
            ptotal = sum(parc.streams.pack_sizes)
            packed = plain[32 : 32 + ptotal]
            if len(packed) >= 32:
                for w in _windows(packed[4:], 5):  # skip stream magic bytes common to every stream of the codec
                    obs["plaintext_windows_searched"] += 1
                    if len(set(w)) > 6 and w in data:
                        viol.append({"key": "packed-stream-leak", "what": "16 bytes of the unencrypted packed stream (chain %s) occur in the encrypted archive" % G.chain_label(plain_chain)})
                        break
        except K.Rejected:
            pass
        # ---- (2) header encryption
        if case["header"].startswith("encrypted"):
            for name, _ in allm:
                for enc in (name.encode("utf-16-le"), name.encode("utf-8"), name.split("/")[-1].encode("utf-16-le")):
                    if enc in data:
                        viol.append({"key": "name-leak", "what": "member name %r occurs in the bytes of a header-encrypted archive" % name})
            try:
                # decode=False: only the header is looked at (the members' own AES coder must not mask a readable header)
                R.parse(data, None, decode=False, strict_tiling=False)
                viol.append({"key": "header-decodable-without-key", "what": "reference reader decodes the header of a header-encrypted archive (password %r, mode %s) without a key" % (pw, case["header"])})
            except R.RefPasswordRequired:
                pass
            except Exception as e:
                viol.append({"key": "header-encryption-odd/%s" % type(e).__name__, "what": "reference reader without key: %s (expected: password required)" % pz.exc_sig(e)})
            if "7zAES" not in (arc.layout.get("header_coders") or []):
                viol.append({"key": "header-not-aes-coded", "what": "header encryption requested (%s, password %r) but the header's coders are %r" % (case["header"], pw, arc.layout.get("header_coders"))})
            # and py7zr itself must not hand out the names without the password
            try:
                with py7zr.SevenZipFile(io.BytesIO(data), password=None) as z:
                    leaked = z.getnames()
                viol.append({"key": "names-without-password", "what": "header-encrypted archive opened without password lists %r" % leaked[:3]})
            except py7zr.exceptions.PasswordRequired:
                pass
            except Exception as e:
                viol.append({"key": "no-password-open/%s" % type(e).__name__, "what": "opening a header-encrypted archive without password raised %s instead of PasswordRequired" % pz.exc_sig(e)})
            # an append session opened with a wrong password must fail and leave the archive alone
            for wrong in (pw + "x", pw[:-1] if len(pw) > 1 else "zz", pw.swapcase() if pw.swapcase() != pw else pw + " "):
                bio = io.BytesIO(data)
                try:
                    with py7zr.SevenZipFile(bio, "a", password=wrong) as z:
                        z.writestr(b"intruder", "intruder.txt")
                    viol.append({"key": "append-with-wrong-password-accepted", "what": "append session with a wrong password on a header-encrypted archive ended normally; archive now lists %r with that password" % (
                        _names(bio.getvalue(), wrong),)})
                    break
                except Exception:
                    obs["wrong_password_appends_refused"] = obs.get("wrong_password_appends_refused", 0) + 1
                    if bio.getvalue() != data:
                        viol.append({"key": "append-with-wrong-password-modifies", "what": "append session with a wrong password raised but changed the archive"})
                        break
        # ---- (3) two archives from identical input
        a, b = arcs
        if props_ivs and len(props_ivs) == 2 and set(props_ivs[0]) & set(props_ivs[1]):
            viol.append({"key": "iv-reuse-across-archives", "what": "two archives from identical input share an IV"})
        try:
            la = R.parse(a, pw, decode=False, strict_tiling=False)
            ta = sum(la.streams.pack_sizes)
            blocks_a = {a[32 + i : 32 + i + 16] for i in range(0, ta - 15, 16)}
            tb = sum(R.parse(b, pw, decode=False, strict_tiling=False).streams.pack_sizes)
            shared = [b[32 + i : 32 + i + 16] for i in range(0, tb - 15, 16) if b[32 + i : 32 + i + 16] in blocks_a]
            if shared:
                viol.append({"key": "ciphertext-block-shared", "what": "two archives from identical input and password share %d ciphertext blocks" % len(shared)})
        except Exception:
            pass
        # ---- (5) reads without / with wrong password
        want = dict(allm)
        for label, wp in [("none", None)] + [(k, v) for k, v in (("different", pw + "x"), ("prefix", pw[:-1] if pw else "zz"), ("case", pw.swapcase() if pw.swapcase() != pw else pw + "A"))]:
            fac = pz.CollectFactory()
            outcome = None
            try:
                with py7zr.SevenZipFile(io.BytesIO(data), password=wp) as z:
                    z.getnames()
                    z.extractall(factory=fac)
                outcome = "completed"
            except py7zr.exceptions.PasswordRequired:
                outcome = "PasswordRequired"
            except Exception as e:
                outcome = "raised:" + type(e).__name__
            got = fac.as_dict()
            differing = [n for n, bts in got.items() if bts and bts != want.get(n)]
            if wp is None:
                obs["no_password_reads"] += 1
                if outcome != "PasswordRequired":
                    viol.append({"key": "no-password/%s" % outcome.split(":")[-1], "what": "reading without a password ended with %s instead of PasswordRequired (chain %s, header %s)" % (outcome, G.chain_label(case["chain"]), case["header"])})
                if got and any(got.values()):
                    viol.append({"key": "no-password-delivers", "what": "bytes delivered without a password"})
            else:
                obs["wrong_password_reads"] += 1
                if outcome == "completed":
                    viol.append({"key": "wrong-password-accepted/%s%s" % (label, "/differing-bytes" if differing else ""),
                                 "what": "wrong password (%s) : read completed; %d members delivered with different bytes (chain %s, header %s)" % (label, len(differing), G.chain_label(case["chain"]), case["header"])})
                elif differing:
                    obs["diag_garbage_before_error"] += 1
    cell = "%s|%s|%s|n%d|%s" % (G.chain_label(case["chain"]), case["header"], "empty-pw" if pw == "" else ("nonbmp" if any(ord(c) > 0xFFFF for c in pw) else "pw"), case["nmembers"], ("append-" + case.get("append_header", "same")) if case["append"] else "-")
    sample = {"chain": G.chain_label(case["chain"]), "header": case["header"], "password_len": len(pw), "members": [(n, len(b)) for n, b in members], "archive_bytes": len(arcs[0])}
    if viol:
        seen = {}
        for v in viol:
            seen.setdefault(v["key"], v)
        return K.result("violated", violations=list(seen.values()), cell=cell, obs=obs, sample=sample)
    return K.result("held", cell=cell, obs=obs, sample=sample)


def on_abnormal(case, kind, info):
    if kind in ("cpu-budget", "deadlock"):
        return K.result("violated", key="hang/" + kind, what="encrypted session / wrong-password read did not finish (%s); the statement requires an error" % kind)
    return None
