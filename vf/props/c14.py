"""C14 — a crash while writing never leaves a file that opens with wrong contents.
Fault injection over the recorded I/O trace: the image for EVERY byte prefix of the ordered
seek/write stream (plus last-op-dropped / reordered variants) is opened with py7zr and with the
reference reader and compared with the pre/post model."""
import io
import os
import random
import threading

from vf.core import pz
from vf.gen import basic as G
from vf.gen import layouts as L
from vf.props import common as K
from vf.ref7z import reader as R
from vf.ref7z import writer as W

LEVEL = "fault_enumeration"
CASE_TIMEOUT = 900
CPU_BUDGET = 700
REQUIRED_OBS = ["sessions_traced", "ops_recorded", "prefix_images_opened", "images_rejected", "images_complete"]
RULE = ("create and append sessions on small member lists (every header mode, +-password, several chains; append onto py7zr-written and reference-written bases; "
        "append sessions that add nothing or only data-less members under the Copy chain, so that the new header lands exactly on the old one). The session's op stream is recorded at two levels: what py7zr issues on a caller-supplied stream (TraceIO) and what "
        "reaches the OS below Python's buffering (raw FileIO under a BufferedRandom); flush() on the caller's stream and fsync() on the file are recorded as barriers; sessions appending a member crafted "
        "to pass for the old header (same length, CRC-32 forced) where the old header was. For EVERY byte prefix of the op stream, and for the variants 'op i lost or late, op i+1 "
        "applied' (unless a barrier separates the two), the file image is rebuilt and opened with py7zr (getnames+extractall) and the reference reader. Violation: an image that opens successfully with a "
        "member list/bytes that is neither the complete post-state nor (append) the pre-state. Cell = (session kind, header, chain, trace level, outcome class).")
EXHAUSTIVE = {"quick": "every byte prefix of every recorded session (40 sessions)", "thorough": "every byte prefix of every recorded session (600 sessions)"}
ASSUMPTIONS = ["crash model: the file holds exactly a prefix of the ordered write stream (optionally with one lost write); no torn sectors beyond byte granularity"]


class TraceIO(io.BytesIO):
    """Caller-supplied stream recording what py7zr issues."""

    def __init__(self, initial=b""):
        super().__init__(initial)
        self.ops = []
        self.seek(0)

    def write(self, b):
        b = bytes(b)
        self.ops.append(("w", self.tell(), b))
        return super().write(b)

    def truncate(self, size=None):
        self.ops.append(("t", self.tell() if size is None else size, b""))
        return super().truncate(size)

    def flush(self):
        # all a writer can do on a caller-supplied stream to order what it wrote before against what follows
        self.ops.append(("b", 0, b""))
        return super().flush()


class RawTrace(io.FileIO):
    """Raw file below Python's buffering: what the kernel would receive."""

    def __init__(self, path, mode):
        super().__init__(path, mode)
        self.ops = []

    def write(self, b):
        b = bytes(b)
        self.ops.append(("w", self.tell(), b))
        return super().write(b)

    def truncate(self, size=None):
        self.ops.append(("t", self.tell() if size is None else size, b""))
        return super().truncate(size)


def cases(rng, tier):
    n = 40 if tier == "quick" else 600
    out = []
    for i in range(n):
        kind = rng.choice(["create", "append", "append", "append-nothing"])
        pw = rng.choice([None, None, "pw"])
        ch = G.chain(rng, comp=rng.choice(["LZMA2", "COPY", "ZSTD", "DEFLATE", "BZIP2", "LZMA"]), aes=(rng.random() < 0.5 if pw else False))
        base = None
        if kind != "create":
            if rng.random() < 0.5:
                base = {"kind": "py", "members": G.member_list(rng, n=rng.choice([1, 2]), max_len=300, flavours=["ascii"]), "chain": G.chain(rng, comp="LZMA2", aes=bool(pw) and rng.random() < 0.5),
                        "header": rng.choice(["encoded", "raw"])}
            else:
                c = L.gen_case(rng, max_len=200, force={"packpos": rng.choice([0, 0, 5]), "trailing": 0, "empty_folder": False})
                if c["password"] is not None:
                    pw = c["password"]
                elif pw is not None:
                    pw = None
                    ch = [x for x in ch if x["f"] != "AES"]
                base = {"kind": "ref", "case": c}
        members = [] if kind == "append-nothing" else G.member_list(rng, n=rng.choice([1, 2, 3]), max_len=400, flavours=["ascii"])
        if kind == "append" and i % 4 == 1:
            # data-less members under a chain that adds no bytes of its own: the new header lands exactly where the old one was
            ch = [c for c in G.chain(rng, comp="COPY", aes=False)]
            for m in members:
                m["content"] = {"len": 0, "tex": "zeros", "seed": 0}
        out.append({"kind": kind, "password": pw, "chain": ch, "header": rng.choice(["encoded", "raw"] + (["encrypted_setter"] if pw else [])),
                    "members": members,
                    "base": base, "level": rng.choice(["stream", "raw"]), "seed": rng.getrandbits(32)})
    # the shape in which the new packed header is written exactly over the old one: a py7zr-written base with an encoded header,
    # appended to with the Copy chain and data-less members (found by a bug hunt on the unmodified tree: 10 of 24 such sessions
    # had a crash state that opened with a wrong member list)
    for i in range(16 if tier == "quick" else 200):
        base = {"kind": "py", "members": G.member_list(rng, n=rng.choice([1, 2]), max_len=120, flavours=["ascii"]), "chain": G.chain(rng, comp="LZMA2", aes=False), "header": "encoded"}
        mem = G.member_list(rng, n=rng.choice([1, 1, 2]), max_len=10, flavours=["ascii"])
        for m in mem:
            m["content"] = {"len": 0, "tex": "zeros", "seed": 0}
        out.append({"kind": "append", "password": None, "chain": G.chain(rng, comp="COPY", aes=False), "header": rng.choice(["encoded", "encoded", "raw"]), "members": mem,
                    "base": base, "level": rng.choice(["stream", "raw"]), "seed": rng.getrandbits(32)})
    # an appended member crafted to be taken for the header while the old signature header is valid (third hunt): only the order of
    # the session's first two writes - start header CRC spoiled, then data over the old header - stands against it
    for i in range(8 if tier == "quick" else 60):
        base = {"kind": "py", "members": G.member_list(rng, n=rng.choice([1, 2]), max_len=120, flavours=["ascii"]), "chain": G.chain(rng, comp=rng.choice(["LZMA2", "COPY"]), aes=False), "header": "encoded"}
        out.append({"kind": "append", "crafted": True, "password": None, "chain": G.chain(rng, comp="COPY", aes=False), "header": rng.choice(["encoded", "raw"]), "members": [],
                    "base": base, "level": ["stream", "raw"][i % 2], "seed": rng.getrandbits(32)})
    return out


def _force_crc(prefix, suffix, target):
    """4 bytes x with crc32(prefix + x + suffix) == target: CRC-32 is affine in x for fixed lengths; solve the 32x32 system over GF(2)."""
    import struct
    import zlib

    def f(x):
        return zlib.crc32(prefix + x + suffix) & 0xFFFFFFFF

    base = f(b"\0\0\0\0")
    cols = [f(struct.pack("<L", 1 << i)) ^ base for i in range(32)]
    want = target ^ base
    rows = [[sum(((cols[i] >> bit) & 1) << i for i in range(32)), (want >> bit) & 1] for bit in range(32)]
    piv, r_i = [], 0
    for col in range(32):
        p_ = next((j for j in range(r_i, 32) if rows[j][0] >> col & 1), None)
        if p_ is None:
            continue
        rows[r_i], rows[p_] = rows[p_], rows[r_i]
        for j in range(32):
            if j != r_i and rows[j][0] >> col & 1:
                rows[j][0] ^= rows[r_i][0]
                rows[j][1] ^= rows[r_i][1]
        piv.append(col)
        r_i += 1
    x = 0
    for j, col in enumerate(piv):
        if rows[j][1]:
            x |= 1 << col
    res = struct.pack("<L", x)
    return res if f(res) == target else None


def _crafted_members(initial, case, pw):
    """The member an adversary would have appended (found by a bug hunt): under the Copy chain its bytes land on the old header,
    and where the old header was they are a raw header of the same length and the same CRC-32 (four forced bytes in a dummy
    property) listing one empty file 'E'. While the old signature header is valid, the file opens as that archive."""
    import struct

    import py7zr

    if len(initial) < 32:
        return None
    ofs, size, ncrc = struct.unpack("<QQL", initial[12:32])
    q = 32 + ofs
    # where does an append session start to write? ask a probe session
    t = TraceIO(initial)
    try:
        z = py7zr.SevenZipFile(t, "a", filters=[{"id": py7zr.FILTER_COPY}], password=pw)
        z.writestr(b"probe", "probe")
        z.close()
    except Exception:
        return None
    ws = [o for o in t.ops if o[0] == "w" and o[1] >= 32]
    if not ws:
        return None
    p = ws[0][1]
    name = "E".encode("utf-16le") + b"\0\0"
    head = b"\x01\x05\x01" + b"\x0e\x01\x80" + b"\x0f\x01\x80" + b"\x11" + bytes([len(name) + 1]) + b"\x00" + name
    k = size - len(head) - 2 - 2
    if q < p or not 4 <= k < 128:
        return None
    pre = head + b"\x19" + bytes([k]) + b"\0" * (k - 4)
    x = _force_crc(pre, b"\x00\x00", ncrc)
    if x is None:
        return None
    fake = pre + x + b"\x00\x00"
    filler = bytes((case["seed"] >> (8 * (i % 4))) & 0xFF or 0x2E for i in range(q - p))
    return [("innocent.bin", filler + fake)]


def _images(initial, ops):
    """Yield (label, image bytes) for every byte prefix of the op stream and the lost-write variants."""
    img = bytearray(initial)

    def apply(buf, op, upto=None):
        kind, pos, data = op
        if kind == "t":
            del buf[pos:]
            return
        d = data if upto is None else data[:upto]
        if pos > len(buf):
            buf += bytes(pos - len(buf))
        buf[pos : pos + len(d)] = d

    yield ("initial", bytes(img))
    for i, op in enumerate(ops):
        if op[0] == "b":
            continue  # a barrier (flush on a caller's stream, fsync on a file): changes nothing, orders what surrounds it
        if op[0] == "w":
            for k in range(1, len(op[2])):
                tmp = bytearray(img)
                apply(tmp, op, k)
                yield ("op%d+%d" % (i, k), bytes(tmp))
        # variant: this op lost (or late), the next one applied - unless the session put a barrier between the two
        j = i + 1
        while j < len(ops) and ops[j][0] == "b":
            j += 1
        if j < len(ops) and j == i + 1:
            tmp = bytearray(img)
            apply(tmp, ops[j])
            yield ("op%d-lost" % i, bytes(tmp))
        apply(img, op)
        yield ("op%d" % i, bytes(img))


def _open_both(img, pw):
    """-> {'py': ('err', cls) | ('ok', names, {name: crc})), 'ref': ...}"""
    import py7zr

    from vf.core import worker as WK

    res = {}
    try:
        with WK.inner_budget(1.0):
            n, got = pz.read_mem(img, pw)
        res["py"] = ("ok", n, {k: pz.crc(v) for k, v in got.items()})
    except WK.CpuBudget:
        if threading.active_count() > 1:
            raise
        res["py"] = ("err", "spin")
    except Exception as e:
        res["py"] = ("err", type(e).__name__)
    try:
        arc = R.parse(img, pw, strict_tiling=False)
        if arc.findings:
            res["ref"] = ("err", "findings")
        else:
            res["ref"] = ("ok", [(m.name or "").replace("\\", "/") for m in arc.members], {(m.name or "").replace("\\", "/"): pz.crc(m.data) for m in arc.members if m.data is not None and not m.is_dir})
    except Exception as e:
        res["ref"] = ("err", type(e).__name__)
    return res


def run_case(case):
    import py7zr

    viol = []
    obs = {k: 0 for k in REQUIRED_OBS}
    obs["images_pre_state"] = 0
    cells = set()
    pw = case["password"]
    with pz.scratch("vf-c14-") as d:
        # ---- base for append
        initial = b""
        pre = None
        if case["base"] is not None:
            b = case["base"]
            try:
                if b["kind"] == "py":
                    _, _, initial = K.write_session(d, K.mat_members(b["members"]), b["chain"], pw, b["header"], "bytesio", "writestr")
                else:
                    members, layout = L.realise(b["case"])
                    initial = W.build(members, layout, password=pw, rng=random.Random(b["case"]["seed"]))
                n0, g0 = pz.read_mem(initial, pw)
                pre = (n0, {k: pz.crc(v) for k, v in g0.items()})
            except (K.Rejected, Exception):
                return K.result("held", cell="skip-base", nontrivial=False, obs={"skipped_base": 1})
        new = K.mat_members(case["members"])
        if pre is not None:
            # a new member named like one of the archive appended to would make the by-name comparison of the two readers ambiguous
            # (false alarm of the thorough tier, seed 4: 'aaa...' of 1 byte in the base, 'aaa...' of 0 bytes appended)
            taken = set(pre[0])
            new = [((nm if nm not in taken else "appended-%d-%s" % (i, nm)), dt) for i, (nm, dt) in enumerate(new)]
        mode = "w" if case["kind"] == "create" else "a"
        if case.get("crafted"):
            new = _crafted_members(initial, case, pw)
            if new is None:
                return K.result("held", cell="skip-crafted", nontrivial=False, obs={"skipped_crafted": 1})
            obs["crafted_sessions"] = 1
        # ---- traced session
        o_fsync = os.fsync
        try:
            if case["level"] == "stream":
                t = TraceIO(initial)
                src = t
            else:
                p = os.path.join(d, "t.7z")
                with open(p, "wb") as f:
                    f.write(initial)
                raw = RawTrace(p, "r+b")
                t = raw
                src = io.BufferedRandom(raw)

                def traced_fsync(fd):
                    if fd == raw.fileno():
                        raw.ops.append(("b", 0, b""))
                    return o_fsync(fd)

                os.fsync = traced_fsync
            z = py7zr.SevenZipFile(src, mode, filters=G.resolve_chain(case["chain"]), password=pw)
            if case["header"] == "raw":
                z.set_encoded_header_mode(False)
            elif case["header"] == "encrypted_setter":
                z.set_encrypted_header(True)
            for nm, data in new:
                z.writestr(data, nm)
            z.close()
            if case["level"] == "raw":
                src.flush()
                final = open(p, "rb").read()
                raw.close()
            else:
                final = t.getvalue()
        except py7zr.exceptions.UnsupportedCompressionMethodError:
            return K.result("held", cell="rejected", nontrivial=False, obs={"rejected_by_writer": 1})
        except Exception as e:
            return K.result("held", cell="skip-session-raises", nontrivial=False, obs={"skipped_session_raises": 1}, sample={"skip": pz.exc_sig(e)})
        finally:
            os.fsync = o_fsync
        ops = list(t.ops)
        obs["barriers_seen"] = sum(1 for o in ops if o[0] == "b")
        obs["sessions_traced"] = 1
        obs["ops_recorded"] = len(ops)
        # post model from the final image (must itself be right)
        try:
            n1, g1 = pz.read_mem(final, pw)
        except Exception as e:
            return K.result("violated", key="final-image-unreadable/%s" % type(e).__name__, what="the completed session's file cannot be read: %s" % pz.exc_sig(e), cell="final-unreadable")
        want_names = (pre[0] if pre else []) + [nm for nm, _ in new]
        post = (n1, {k: pz.crc(v) for k, v in g1.items()})
        if n1 != want_names:
            return K.result("violated", key="final-image-wrong", what="completed session lists %r, expected %r" % (n1[:6], want_names[:6]), cell="final-wrong")
        seen_img = set()
        for label, img in _images(initial, ops):
            h = hash(img)
            if h in seen_img:
                continue
            seen_img.add(h)
            obs["prefix_images_opened"] += 1
            r = _open_both(img, pw)
            for who in ("py", "ref"):
                o = r[who]
                if o[0] == "err":
                    if who == "py":
                        obs["images_rejected"] += 1
                    continue
                state = (o[1], o[2])
                if state == post or (who == "ref" and o[1] == post[0] and all(o[2].get(k) == v for k, v in post[1].items())):
                    if who == "py":
                        obs["images_complete"] += 1
                    cls = "post"
                elif pre is not None and (state == pre or (o[1] == pre[0] and all(o[2].get(k) == v for k, v in pre[1].items()))):
                    if who == "py":
                        obs["images_pre_state"] += 1
                    cls = "pre"
                elif not o[1] and not pre and case["kind"] == "create" and False:
                    cls = "empty"
                else:
                    cls = "WRONG"
                    what = "names %r" % (o[1][:5],)
                    viol.append({"key": "partial-image-accepted/%s/%s/%s" % (who, case["kind"], "empty-list" if not o[1] else ("subset" if set(o[1]) <= set(post[0]) else "other")),
                                 "what": "%s session (%s, header %s, level %s): image at %s (%d of %d bytes) opens with %s through %s; pre=%r post=%r" % (
                                     case["kind"], G.chain_label(case["chain"]), case["header"], case["level"], label, len(img), len(final), what, who, pre[0][:4] if pre else None, post[0][:4])})
                cells.add("%s|%s|%s|%s|%s" % (case["kind"], case["header"], case["level"], who, cls))
            if len(viol) > 8:
                break
    sample = {"kind": case["kind"], "chain": G.chain_label(case["chain"]), "header": case["header"], "level": case["level"], "ops": len(ops), "final_bytes": len(final),
              "first_ops": [(k, p, len(dt)) for k, p, dt in ops[:6]]}
    if viol:
        seen = {}
        for v in viol:
            seen.setdefault(v["key"], v)
        return K.result("violated", violations=list(seen.values()), cells=sorted(cells), obs=obs, sample=sample)
    return K.result("held", cells=sorted(cells), obs=obs, sample=sample)


def on_abnormal(case, kind, info):
    if kind in ("cpu-budget", "deadlock"):
        return K.result("inconclusive", key="hang/" + kind, what="opening partial images did not finish (%s); termination is C05's property" % kind)
    return None
