"""C18 — progress callbacks give a complete, well-ordered account (offline checker over the
recorded callback log; worker/reporter interleavings driven by the harness scheduler)."""
import io
import os
import random
import threading
import time

from vf.core import pz
from vf.gen import basic as G
from vf.mon import sched
from vf.props import common as K
from vf.props import c09
from vf.props.c13 import GateFactory
from vf.ref7z import writer as W

LEVEL = "exploration"
CASE_TIMEOUT = 900
CPU_BUDGET = 600
REQUIRED_OBS = ["runs", "callback_events", "members_paired", "schedules_controlled"]
RULE = ("archives of C09/C13 (single/multi-folder, directories, empty files) x extractall / extract(T) (skipped members) x opened by path/stream x sink "
        "factory/disk x handlers instantaneous or blocking 0-3 ms x worker/reporter interleavings driven by the harness scheduler (gates at callback entry and at "
        "factory writes). Offline checker over the recorded log (seq, monotonic ns, thread, event, args) with close() entry/return stamped in the same log: first "
        "event start_preparation, last postprocess; every member that receives events gets exactly one start then one end with its name; end byte count == member "
        "size; sum(update) == bytes decoded for delivered non-empty members; every delivered member is among the reported; nothing stamped after close() returned; "
        "reporter thread dead after close(); close() does not raise. Histories on one object: two extractions with different callbacks, an extraction without "
        "callback before/after one with, a handler blocking 60 ms per event (the queue outlasts one second), mp=True, an extraction whose handler raises (at preparation / n-th start / end / update) followed by one with a sound handler: every callback gets one complete account of its "
        "own extraction and nothing else. The command line's own handler: 'py7zr x --verbose' on 40..3000 members (also archives without any data) with its output a pipe nobody reads for 2 s: one line per member of every reported kind before the command ends, no traceback. Cell = (archive shape, call, open mode, sink, handler, distinct schedule).")
ASSUMPTIONS = ["'processed' is defined by observation: the members that receive at least one event"]


def cases(rng, tier):
    out = []
    n = 60 if tier == "quick" else 1500
    for i in range(n):
        mem, nf = c09._gen_archive(rng, 6)
        out.append({"members": [[n_, k, (b or b"").hex()] for n_, k, b in mem], "folders": nf, "writer": rng.choice(["ref", "py"]), "chain": rng.choice(["LZMA2", "COPY", "ZSTD"]),
                    "seed": rng.getrandbits(32), "runs": 6 if tier == "quick" else 10,
                    # small I/O block / extraction chunk: members are decoded in several rounds (as members above 1 MiB / 128 MB are)
                    "block": rng.choice([None, None, 4096, 100]), "chunk": rng.choice([None, 1000, 100, 16])})
    # histories on one object, slow handlers, process workers
    for i in range(20 if tier == "quick" else 300):
        mem, nf = c09._gen_archive(rng, 6)
        out.append({"kind": "history", "shape": ["two-callbacks", "nocb-then-cb", "cb-then-nocb", "slow-handler", "mp"][i % 5],
                    "members": [[n_, k, (b or b"").hex()] for n_, k, b in mem], "folders": nf if i % 5 != 4 else max(2, nf), "writer": rng.choice(["ref", "py"]),
                    "chain": rng.choice(["LZMA2", "COPY"]), "seed": rng.getrandbits(32), "open": rng.choice(["path", "stream"]), "block": None, "chunk": None})
    # a callback that raises, then a sound one on the same object; the command line's own callback ('x --verbose') behind a slow pipe
    for i in range(6 if tier == "quick" else 60):
        mem, nf = c09._gen_archive(rng, 6)
        out.append({"kind": "history", "shape": "raising-then-cb", "raise_at": rng.choice(["pre", "start", "end", "update"]), "raise_nth": rng.randint(0, 2),
                    "members": [[n_, k, (b or b"").hex()] for n_, k, b in mem], "folders": nf, "writer": rng.choice(["ref", "py"]),
                    "chain": rng.choice(["LZMA2", "COPY"]), "seed": rng.getrandbits(32), "open": rng.choice(["path", "stream"]), "block": None, "chunk": None})
    for i in range(3 if tier == "quick" else 12):
        out.append({"kind": "cli", "members": [1500, 3000, 40][i % 3], "size": [1, 0, 0][i % 3] if i < 3 else rng.choice([0, 1, 7]), "dirs": i % 2, "seed": rng.getrandbits(32)})
    return out


def _run_cli(case):
    """'py7zr x --verbose': the command line's own callback prints one line per member. Its standard output is a pipe nobody
    reads for a while (a slow terminal): every member must still be reported before the command ends, and an archive without
    any data must not kill the reporter."""
    import subprocess
    import sys

    obs = {k: 0 for k in REQUIRED_OBS}
    viol = []
    n = case["members"]
    members = []
    for i in range(n):
        if case["dirs"] and i % 50 == 0:
            members.append({"name": "dir%04d" % i, "kind": "dir", "attributes": 0x10 | 0x8000 | (0o040755 << 16), "mtime": 132000000000000000 + i})
        elif case["size"] == 0:
            members.append({"name": "member-%05d.txt" % i, "kind": "emptyfile", "attributes": 0x20 | 0x8000 | (0o100644 << 16), "mtime": 132000000000000000 + i})
        else:
            members.append({"name": "member-%05d.txt" % i, "kind": "file", "data": bytes([65 + i % 26]) * case["size"], "attributes": 0x20 | 0x8000 | (0o100644 << 16), "mtime": 132000000000000000 + i})
    ns = sum(1 for m in members if m["kind"] == "file")
    data = W.build(members, {"folders": [{"n": ns, "chain": [{"m": "COPY"}], "crc": "sub"}] if ns else [], "header": "lzma+crc"})
    with pz.scratch("vf-c18c-") as d:
        with open(os.path.join(d, "a.7z"), "wb") as f:
            f.write(data)
        env = dict(os.environ)
        root = os.environ.get("VERIF_REPO")
        if root:
            env["PYTHONPATH"] = root + os.pathsep + env.get("PYTHONPATH", "")
        env["COLUMNS"] = "100"
        p = subprocess.Popen([sys.executable, "-m", "py7zr", "x", "--verbose", "a.7z", "out"], cwd=d, stdout=subprocess.PIPE, stderr=subprocess.PIPE, env=env, stdin=subprocess.DEVNULL)
        # nobody reads for a while: the pipe (64 KiB) is full long before the last member's line is written
        time.sleep(2.0 if n > 1000 else 0.3)
        try:
            so, se = p.communicate(timeout=120)
        except subprocess.TimeoutExpired:
            p.kill()
            p.communicate()
            return K.result("inconclusive", key="cli-timeout", what="py7zr x --verbose did not end within 120 s")
        so, se = so.decode("utf-8", "replace"), se.decode("utf-8", "replace")
        obs["runs"] = 1
        obs["cli_runs"] = 1
        tag = "py7zr x --verbose on %d members (%d bytes each%s), standard output a pipe read late" % (n, case["size"], ", some directories" if case["dirs"] else "")
        if p.returncode != 0:
            viol.append({"key": "cli/x-verbose-fails/rc=%s" % p.returncode, "what": "%s: exit %s: %s" % (tag, p.returncode, (so + se)[-200:])})
        else:
            got = pz.walk_tree(os.path.join(d, "out")) if os.path.isdir(os.path.join(d, "out")) else {}
            if len(got) != n:
                viol.append({"key": "cli/x-verbose-extracts-part", "what": "%s: %d of %d members on disk" % (tag, len(got), n)})
            lines = [ln for ln in (so + "\n" + se).split("\n") if ln.startswith("- ")]  # the progress lines go to standard error
            reported = {ln[2:].split(" ")[0] for ln in lines}
            obs["callback_events"] = len(lines)
            obs["members_paired"] = len(reported)
            want = {m["name"] for m in members}
            # 'processed' by observation: the members that receive a line; whatever class gets one for some member gets one for all
            kinds_reported = {m["kind"] for m in members if m["name"] in reported}
            missing = sorted(m["name"] for m in members if m["kind"] in kinds_reported and m["name"] not in reported)
            if not reported and any(m["kind"] != "dir" for m in members):
                viol.append({"key": "cli/x-verbose-reports-nothing", "what": "%s: no member line in the output (%r)" % (tag, (so + se)[-200:])})
            elif missing:
                viol.append({"key": "cli/x-verbose-members-unreported", "what": "%s: exit 0, %d of %d members of the reported kinds have no line (first %r); all %d are on disk" % (
                    tag, len(missing), len(missing) + len(reported), missing[:2], len(got))})
            if reported - want:
                viol.append({"key": "cli/x-verbose-unknown-member", "what": "%s: lines for %r" % (tag, sorted(reported - want)[:3])})
            if "Traceback" in se or "Traceback" in so:
                viol.append({"key": "cli/x-verbose-traceback", "what": "%s: a traceback is printed: %s" % (tag, (se or so).strip().splitlines()[-1][:200])})
        obs["schedules_controlled"] = 0
    cell = "cli|x-verbose|n%d|size%d|%s" % (n, case["size"], "dirs" if case["dirs"] else "-")
    sample = {"cli": "x --verbose", "members": n, "lines": obs.get("callback_events", 0)}
    if viol:
        return K.result("violated", violations=viol, cells=[cell], obs=obs, sample=sample)
    return K.result("held", cells=[cell], obs=obs, sample=sample)


def _make_callback(log, lock, block_ms, gated):
    import py7zr

    class Rec(py7zr.callbacks.ExtractCallback):
        def _ev(self, kind, *args):
            if gated:
                sched.gate("cb:" + kind)
            if block_ms:
                time.sleep(block_ms / 1000.0)
            with lock:
                log.append((len(log), time.monotonic_ns(), threading.get_ident(), kind, args))

        def report_start_preparation(self):
            self._ev("pre")

        def report_start(self, processing_file_path, processing_bytes):
            self._ev("start", processing_file_path, processing_bytes)

        def report_update(self, decompressed_bytes):
            self._ev("update", decompressed_bytes)

        def report_end(self, processing_file_path, wrote_bytes):
            self._ev("end", processing_file_path, wrote_bytes)

        def report_warning(self, message):
            self._ev("warning", message)

        def report_postprocess(self):
            self._ev("post")

    return Rec()


def _raising_callback(at, nth):
    import py7zr

    class Boom(py7zr.callbacks.ExtractCallback):
        def __init__(self):
            self.n = 0

        def _ev(self, kind):
            if kind == at:
                self.n += 1
                if self.n > nth:
                    raise RuntimeError("handler fails at %s #%d" % (kind, self.n))

        def report_start_preparation(self):
            self._ev("pre")

        def report_start(self, processing_file_path, processing_bytes):
            self._ev("start")

        def report_update(self, decompressed_bytes):
            self._ev("update")

        def report_end(self, processing_file_path, wrote_bytes):
            self._ev("end")

        def report_warning(self, message):
            pass

        def report_postprocess(self):
            pass

    return Boom()


def check_log(log, close_ret_ns, sizes, delivered, tag):
    """Offline trace checker. sizes: name -> member size; delivered: set of names delivered with bytes."""
    bad = []
    evs = [e for e in log if e[3] not in ("close-enter", "close-return")]
    if not evs:
        return [("no-events", "%s: no callback event recorded" % tag)]
    if evs[0][3] != "pre":
        bad.append(("first-not-preparation", "%s: first event is %s" % (tag, evs[0][3])))
    if evs[-1][3] != "post":
        bad.append(("last-not-postprocess", "%s: last event is %s%r" % (tag, evs[-1][3], evs[-1][4])))
    if sum(1 for e in evs if e[3] == "pre") != 1 or sum(1 for e in evs if e[3] == "post") != 1:
        bad.append(("prepost-count", "%s: %d preparation and %d postprocess events" % (tag, sum(1 for e in evs if e[3] == "pre"), sum(1 for e in evs if e[3] == "post"))))
    starts, ends = {}, {}
    for seq, ts, th, kind, args in evs:
        if kind == "start":
            starts.setdefault(args[0], []).append(seq)
        elif kind == "end":
            ends.setdefault(args[0], []).append((seq, args[1]))
    for name in set(starts) | set(ends):
        s, e = starts.get(name, []), ends.get(name, [])
        if name not in sizes:
            bad.append(("unknown-member", "%s: events for %r which is not a member" % (tag, name)))
            continue
        if len(s) != 1 or len(e) != 1:
            bad.append(("pairing/%d-starts-%d-ends" % (len(s), len(e)), "%s: member %r got %d start and %d end events" % (tag, name, len(s), len(e))))
            continue
        if e[0][0] < s[0]:
            bad.append(("end-before-start", "%s: member %r: end (#%d) before start (#%d)" % (tag, name, e[0][0], s[0])))
        try:
            cnt = int(e[0][1])
        except (TypeError, ValueError):
            cnt = None
        if cnt != sizes[name]:
            bad.append(("end-bytecount", "%s: member %r: end event reports %r bytes, member size %d" % (tag, name, e[0][1], sizes[name])))
    for name in delivered:
        if name not in starts:
            bad.append(("delivered-unreported", "%s: member %r was delivered but never reported" % (tag, name)))
    tot = 0
    for seq, ts, th, kind, args in evs:
        if kind == "update":
            try:
                tot += int(args[0])
            except (TypeError, ValueError):
                bad.append(("update-not-a-number", "%s: update event carries %r" % (tag, args[0])))
    want = sum(sizes[n] for n in delivered)
    if tot != want:
        bad.append(("update-sum", "%s: update events sum to %d, bytes decoded for delivered members %d" % (tag, tot, want)))
    late = [e for e in evs if e[1] > close_ret_ns]
    if late:
        bad.append(("event-after-close", "%s: %d events stamped after close() returned (first: %s)" % (tag, len(late), late[0][3])))
    return bad


def _run_history(case):
    """Several extractions on one object, a handler that blocks long enough for the queue to outlast close()'s patience,
    and process workers: every callback must get one complete account of its own extraction and nothing else."""
    import py7zr

    from vf.core import worker as WK

    viol = []
    obs = {k: 0 for k in REQUIRED_OBS}
    shape = case["shape"]
    with pz.scratch("vf-c18h-") as d:
        mem, data = c09._build(case, d)
        names = [n for n, _, _ in mem]
        kinds = {n: k for n, k, _ in mem}
        sizes = {n: (len(b) if k == "file" else 0) for n, k, b in mem}
        path = os.path.join(d, "a.7z")
        with open(path, "wb") as f:
            f.write(data)
        try:
            gn, full = pz.read_mem(io.BytesIO(data))
        except Exception:
            return K.result("held", cell="skip-unreadable", nontrivial=False, obs={"skipped": 1})
        if gn != names:
            return K.result("held", cell="skip-names", nontrivial=False, obs={"skipped": 1})
        if shape == "mp" and len(set(n.split("/")[0] for n in names)) == 0:
            return K.result("held", cell="skip", nontrivial=False, obs={"skipped": 1})
        delivered = {n for n in names if kinds[n] == "file" and sizes[n] > 0}
        logs = [([], threading.Lock()), ([], threading.Lock())]
        block = 60 if shape == "slow-handler" else 0
        cbs = [_make_callback(lg, lk, block, False) for lg, lk in logs]
        src = path if (case["open"] == "path" or shape == "mp") else io.BytesIO(data)
        err = close_err = None
        z = None
        try:
            with WK.inner_budget(60.0):
                z = py7zr.SevenZipFile(src, "r", mp=(shape == "mp"))
                if shape == "two-callbacks":
                    z.extractall(callback=cbs[0], factory=pz.CollectFactory())
                    z.reset()
                    z.extractall(callback=cbs[1], factory=pz.CollectFactory())
                elif shape == "nocb-then-cb":
                    z.extractall(factory=pz.CollectFactory())
                    z.reset()
                    z.extractall(callback=cbs[1], factory=pz.CollectFactory())
                elif shape == "cb-then-nocb":
                    z.extractall(callback=cbs[0], factory=pz.CollectFactory())
                    z.reset()
                    z.extractall(factory=pz.CollectFactory())
                elif shape == "slow-handler":
                    z.extractall(callback=cbs[0], factory=pz.CollectFactory())
                elif shape == "raising-then-cb":
                    try:
                        z.extractall(callback=_raising_callback(case["raise_at"], case["raise_nth"]), factory=pz.CollectFactory())
                    except Exception:
                        pass  # whether the handler's exception reaches the caller is not this property's business
                    z.reset()
                    z.extractall(callback=cbs[1], factory=pz.CollectFactory())
                else:
                    z.extractall(path=os.path.join(d, "out"), callback=cbs[0])
        except WK.CpuBudget:
            raise
        except Exception as e:
            err = e
        rep = getattr(z, "reporterd", None) if z is not None else None
        try:
            if z is not None:
                z.close()
        except Exception as e:
            close_err = e
        close_ret = time.monotonic_ns()
        time.sleep(0.05)
        tag = "history %s (%s, %d folders, %d members)" % (shape, "path" if isinstance(src, str) else "stream", case["folders"], len(names))
        obs["runs"] = 1
        obs["histories"] = 1
        obs["callback_events"] = sum(len(lg) for lg, _ in logs)
        if err is not None:
            viol.append({"key": "extract-raises/%s" % type(err).__name__, "what": "%s: %s" % (tag, pz.exc_sig(err))})
        else:
            if close_err is not None:
                viol.append({"key": "close-raises/%s" % type(close_err).__name__, "what": "%s: close() raised %s with %d events delivered" % (tag, pz.exc_sig(close_err), obs["callback_events"])})
            if rep is not None and rep.is_alive():
                viol.append({"key": "reporter-alive-after-close", "what": "%s: reporter thread still alive after close()" % tag})
            used = {"two-callbacks": (0, 1), "nocb-then-cb": (1,), "cb-then-nocb": (0,), "slow-handler": (0,), "mp": (0,), "raising-then-cb": (1,)}[shape]
            for i in used:
                for code, text in check_log(list(logs[i][0]), close_ret, sizes, delivered, "%s, callback %d" % (tag, i + 1)):
                    viol.append({"key": "log/%s/history-%s" % (code, shape), "what": text})
                obs["members_paired"] += len({e[4][0] for e in logs[i][0] if e[3] == "start"})
            for i in (0, 1):
                if i not in used and logs[i][0]:
                    viol.append({"key": "log/events-for-a-callback-not-in-use", "what": "%s: callback %d received %d events" % (tag, i + 1, len(logs[i][0]))})
        obs["schedules_controlled"] = 0
    cell = "history|%s|%s|f%d" % (shape, "path" if isinstance(src, str) else "stream", case["folders"])
    sample = {"history": shape, "members": len(names), "folders": case["folders"], "events": obs["callback_events"]}
    if viol:
        seen = {}
        for v in viol:
            seen.setdefault(v["key"], v)
        return K.result("violated", violations=list(seen.values()), cells=[cell], obs=obs, sample=sample)
    return K.result("held", cells=[cell], obs=obs, sample=sample)


def run_case(case):
    import py7zr

    from vf.core import worker as WK

    if case.get("kind") == "cli":
        return _run_cli(case)
    if case.get("kind") == "history":
        return _run_history(case)
    viol = []
    obs = {k: 0 for k in REQUIRED_OBS}
    cells = set()
    r = random.Random(case["seed"])
    with pz.scratch("vf-c18-") as d, K.io_knobs(case.get("block"), case.get("chunk")):
        mem, data = c09._build(case, d)
        names = [n for n, _, _ in mem]
        kinds = {n: k for n, k, _ in mem}
        sizes = {n: (len(b) if k == "file" else 0) for n, k, b in mem}
        path = os.path.join(d, "a.7z")
        with open(path, "wb") as f:
            f.write(data)
        try:
            gn, full = pz.read_mem(io.BytesIO(data))
        except Exception as e:
            return K.result("held", cell="skip-unreadable", nontrivial=False, obs={"skipped": 1})
        if gn != names:
            return K.result("held", cell="skip-names", nontrivial=False, obs={"skipped": 1})
        traces = set()
        for run in range(case["runs"]):
            call = r.choice(["extractall", "extract", "extract-rec"])
            mode = r.choice(["path", "stream"])
            sink = r.choice(["factory", "disk"])
            block = r.choice([0, 0, 1, 3])
            gated = run % 3 != 2
            targets = None
            if call != "extractall":
                targets = r.sample(names, r.randint(0, len(names)))
            # model of WHICH members are reported: the same call on the sequential path (archive opened from a stream,
            # no scheduler); every path must give the same account
            ref_log, ref_lock = [], threading.Lock()
            try:
                with py7zr.SevenZipFile(io.BytesIO(data), "r") as zr:
                    kwr = {"callback": _make_callback(ref_log, ref_lock, 0, False), "factory": pz.CollectFactory()}
                    if call == "extractall":
                        zr.extractall(**kwr)
                    else:
                        zr.extract(targets=targets, recursive=(call == "extract-rec"), **kwr)
                expected_reported = {e[4][0] for e in ref_log if e[3] == "start"}
            except Exception:
                expected_reported = None
            log, lock = [], threading.Lock()
            cb = _make_callback(log, lock, block, gated)
            s = None
            if gated:
                s = sched.Sched(rng=random.Random(r.getrandbits(32)), quiesce_s=0.02, hold_until_join=False)
                sched.install(s)
            fac = GateFactory() if (gated and sink == "factory") else pz.CollectFactory()
            out = os.path.join(d, "o%d" % run)
            z = None
            err = None
            close_err = None
            close_ret = None
            try:
                with WK.inner_budget(30.0):
                    z = py7zr.SevenZipFile(path if mode == "path" else io.BytesIO(data), "r")
                    kw = {"callback": cb}
                    if sink == "factory":
                        kw["factory"] = fac
                    else:
                        kw["path"] = out
                    if call == "extractall":
                        z.extractall(**kw)
                    else:
                        z.extract(targets=targets, recursive=(call == "extract-rec"), **kw)
            except WK.CpuBudget:
                if s:
                    sched.uninstall()
                raise
            except Exception as e:
                err = e
            rep = getattr(z, "reporterd", None) if z is not None else None
            try:
                if z is not None:
                    with lock:
                        log.append((len(log), time.monotonic_ns(), threading.get_ident(), "close-enter", ()))
                    z.close()
            except Exception as e:
                close_err = e
            close_ret = time.monotonic_ns()
            time.sleep(0.01)  # anything delivered now is 'after close() returned'
            if s:
                sched.uninstall()
                traces.add(tuple((c, l.split(":")[0]) for c, l, _ in s.trace))
                obs["schedules_controlled"] += 1
            obs["runs"] += 1
            obs["callback_events"] += len(log)
            tag = "%s(%s) %s sink=%s handler=%dms %s, %d folders" % (call, (targets or [])[:4] if targets is not None else "", mode, sink, block, "scheduled" if gated else "free", case["folders"])
            if err is not None:
                viol.append({"key": "extract-raises/%s" % type(err).__name__, "what": "%s: %s" % (tag, pz.exc_sig(err))})
                continue
            if close_err is not None:
                viol.append({"key": "close-raises/%s" % type(close_err).__name__, "what": "%s: close() raised %s" % (tag, pz.exc_sig(close_err))})
            if rep is not None and rep.is_alive():
                viol.append({"key": "reporter-alive-after-close", "what": "%s: reporter thread still alive after close()" % tag})
            if sink == "factory":
                delivered = {n for n in fac.as_dict() if kinds.get(n) == "file" and sizes[n] > 0}
            else:
                tree = pz.walk_tree(out) if os.path.isdir(out) else {}
                delivered = {n for n in names if kinds[n] == "file" and sizes[n] > 0 and n in tree}
            if sink == "disk":
                # directories and empty files that extraction created are 'processed' members too
                delivered_all = {n for n in names if n in tree}
            else:
                delivered_all = set(fac.as_dict())
            for code, text in check_log(list(log), close_ret, sizes, delivered, tag):
                viol.append({"key": "log/" + code, "what": text})
            reported = {e[4][0] for e in log if e[3] == "start"}
            unreported = sorted(delivered_all - reported)
            if unreported:
                viol.append({"key": "log/created-but-unreported/%s" % kinds.get(unreported[0], "?"), "what": "%s: %r were created/delivered but got no events" % (tag, unreported[:4])})
            if expected_reported is not None and reported != expected_reported:
                miss = sorted(expected_reported - reported)
                extra = sorted(reported - expected_reported)
                viol.append({"key": "log/account-differs-from-sequential/%s" % ("missing-" + kinds.get(miss[0], "?") if miss else "extra"),
                             "what": "%s: reported members differ from the sequential path's account: missing %r, extra %r" % (tag, miss[:4], extra[:4])})
            obs["accounts_compared_with_sequential"] = obs.get("accounts_compared_with_sequential", 0) + (1 if expected_reported is not None else 0)
            obs["members_paired"] += len({e[4][0] for e in log if e[3] == "start"})
            cells.add("f%d|%s|%s|%s|blk%d|%s|%s" % (case["folders"], call, mode, sink, block, "sched" if gated else "free", "multi-round" if case.get("chunk") else "one-round"))
            if len(viol) > 10:
                break
        obs["distinct_schedules"] = len(traces)
    sample = {"members": [(n, k) for n, k, _ in mem][:6], "folders": case["folders"], "runs": case["runs"], "distinct_schedules": obs.get("distinct_schedules", 0)}
    if viol:
        seen = {}
        for v in viol:
            seen.setdefault(v["key"], v)
        return K.result("violated", violations=list(seen.values()), cells=sorted(cells), obs=obs, sample=sample)
    return K.result("held", cells=sorted(cells), obs=obs, sample=sample)


def on_abnormal(case, kind, info):
    if kind in ("cpu-budget", "deadlock"):
        return K.result("violated", key="hang/" + kind, what="extraction with a callback did not finish (%s)" % kind)
    return None
