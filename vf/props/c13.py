"""C13 — extraction results do not depend on scheduling; worker errors reach the caller.
Controlled schedule exploration of the per-folder worker threads (gates at output writes) with an
offline comparison against the sequential output; process workers perturbed by repetition;
damaged folders at every position must raise."""
import io
import os
import random
import shutil
import threading

from vf.core import pz
from vf.gen import basic as G
from vf.gen import damage as D
from vf.mon import sched
from vf.props import common as K
from vf.ref7z import writer as W

LEVEL = "exploration"
CASE_TIMEOUT = 900
CPU_BUDGET = 600
REQUIRED_OBS = ["controlled_schedules", "distinct_interleavings", "worker_threads_seen", "process_runs", "damaged_runs"]
RULE = ("multi-folder archives (2..4 folders x 1..3 members; py7zr append sessions and reference-written) opened by path so that the parallel path is taken. "
        "Threads: a harness scheduler parks every worker at its output writes (WriterFactory.create / Py7zIO.write) and releases one at a time; the schedule tree is "
        "explored depth-first by replay while small, then by seeded random walks; every run's factory products must equal the sequential (stream-opened) output. "
        "Processes (mp=True): disk extraction repeated, tree must equal the sequential tree. Independent objects: 8 threads extracting the same file concurrently. "
        "Errors: one folder damaged at each position x {threads, processes, sequential} must raise, and raise the class of error the sequential path raises for that image; a failing sink (factory write raising) must raise. "
        "Cell = (folders, members, mode, distinct trace).")
ASSUMPTIONS = ["gates are placed at the client boundary (caller-supplied factory/IO objects); py7zr code is not modified",
               "mp=True with a WriterFactory is not compared (children cannot write into the parent's objects; nothing promises it)"]


class GateIO(pz.CollectIO):
    def write(self, s):
        sched.gate("write:" + self.name)
        return super().write(s)


class GateFactory(pz.CollectFactory):
    def create(self, filename):
        sched.gate("create:" + filename)
        io_ = GateIO(filename, self.log)
        self.created.append((filename, io_))
        return io_


class FailingIO(pz.CollectIO):
    def write(self, s):
        raise OSError(28, "No space left on device (injected)")


class FailingFactory(pz.CollectFactory):
    def __init__(self, victim):
        super().__init__()
        self.victim = victim

    def create(self, filename):
        io_ = FailingIO(filename) if filename == self.victim else pz.CollectIO(filename)
        self.created.append((filename, io_))
        return io_


_disk_gate = {"root": None}


def _audit(event, args):
    """Gate for disk extraction: a worker thread about to create/open something under the destination
    parks here (the audit hook runs in the thread doing the operation, before the system call)."""
    root = _disk_gate["root"]
    if root is None or sched._active is None:
        return
    try:
        if event == "open":
            p = args[0]
            if isinstance(p, (str, bytes, os.PathLike)):
                p = os.fsdecode(p)
                if p.startswith(root):
                    sched.gate("open:" + os.path.relpath(p, root))
        elif event in ("os.mkdir", "os.symlink"):
            p = os.fsdecode(args[0] if event == "os.mkdir" else args[1])
            if p.startswith(root):
                sched.gate(event[3:] + ":" + os.path.relpath(p, root))
    except Exception:
        pass


def worker_init():
    import sys

    sys.addaudithook(_audit)


def cases(rng, tier):
    out = []
    n = 24 if tier == "quick" else 300
    for i in range(n):
        nf = rng.choice([2, 2, 3, 3, 4])
        folders = []
        for f in range(nf):
            k = rng.choice([1, 1, 2, 3])
            folders.append([{"name": "f%d/m%d_%s" % (f, j, "".join(rng.choice("abc") for _ in range(3))), "content": G.content_recipe(rng, max_len=rng.choice([50, 3000, 70000]))} for j in range(k)])
        out.append({"folders": folders, "writer": rng.choice(["py", "ref"]), "chain": rng.choice(["COPY", "LZMA2", "ZSTD", "BZIP2"]), "seed": rng.getrandbits(32),
                    "max_schedules": 60 if tier == "quick" else 400, "mp_runs": 3 if tier == "quick" else 12})
    # shapes in which two workers can meet in one output path, or the parallel paths differ from the sequential one by construction
    shapes = ["renamed-collision", "file-vs-dir-prefix", "mp-factory", "mp-large-error", "chdir-after-open",
              # fourth hunt: the name of the open archive taken away or given to another file; two objects, one directory, link members
              "name-gone-after-open", "name-replaced-after-open", "two-objects-one-directory"]
    for i in range(len(shapes) * (1 if tier == "quick" else 6)):
        out.append({"kind": "special", "shape": shapes[i % len(shapes)], "seed": rng.getrandbits(32), "_timeout": 120})
    return out


def _build(case):
    import py7zr

    folders = [[(m["name"], G.materialise(m["content"]) or b"x") for m in f] for f in case["folders"]]
    if case["writer"] == "py":
        filt = {"COPY": [{"id": py7zr.FILTER_COPY}], "LZMA2": [{"id": py7zr.FILTER_LZMA2, "preset": 1}], "ZSTD": [{"id": py7zr.FILTER_ZSTD, "level": 1}], "BZIP2": [{"id": py7zr.FILTER_BZIP2}]}[case["chain"]]
        buf = io.BytesIO()
        for i, f in enumerate(folders):
            with py7zr.SevenZipFile(buf, "w" if i == 0 else "a", filters=filt) as z:
                for n, b in f:
                    z.writestr(b, n)
            buf.seek(0)
        return folders, buf.getvalue()
    chain = {"COPY": [{"m": "COPY"}], "LZMA2": [{"m": "LZMA2"}], "ZSTD": [{"m": "ZStandard"}], "BZIP2": [{"m": "BZip2"}]}[case["chain"]]
    members = [{"name": n, "kind": "file", "data": b, "mtime": 132000000000000000, "attributes": 0x20 | 0x8000 | (0o100644 << 16)} for f in folders for n, b in f]
    lay = {"folders": [{"n": len(f), "chain": chain, "crc": "sub"} for f in folders], "header": "lzma+crc"}
    return folders, W.build(members, lay)


def _tree_of(out):
    return {p_: (r_["kind"], r_.get("crc"), len(r_.get("data") or b"")) for p_, r_ in pz.walk_tree(out).items()} if os.path.isdir(out) else {}


def _run_special(case):
    import py7zr

    shape = case["shape"]
    r = random.Random(case["seed"])
    viol = []
    obs = {k: 0 for k in REQUIRED_OBS}
    obs["special_shapes"] = 1
    cp = [{"id": py7zr.FILTER_COPY}]
    with pz.scratch("vf-c13s-", big=True) as d:
        path = os.path.join(d, "t.7z")

        def outcome(src, out, **kw):
            try:
                with py7zr.SevenZipFile(src, "r", **kw) as z:
                    z.extractall(out)
                return ("ok", _tree_of(out))
            except Exception as e:
                return ("raised " + type(e).__name__, _tree_of(out))

        if shape in ("renamed-collision", "file-vs-dir-prefix"):
            big = r.randbytes(1 << 20) * 16
            if shape == "renamed-collision":
                sessions = [[("a", b"1" * 100)], [("a", big)], [("a_0", b"3" * 100)]]
            else:
                sessions = [[("0pad", big), ("a", b"file")], [("a/b", b"inside")]]
            for i, mem in enumerate(sessions):
                with py7zr.SevenZipFile(path, "w" if i == 0 else "a", filters=cp) as z:
                    for n_, b_ in mem:
                        z._writestr(b_, n_) if n_ == "a/b" else z.writestr(b_, n_)
            data = open(path, "rb").read()
            want = outcome(io.BytesIO(data), os.path.join(d, "seq"))
            seen = {}
            for i in range(6):
                for mp in (False, True):
                    got = outcome(path, os.path.join(d, "p%d%d" % (i, mp)), mp=mp)
                    obs["process_runs" if mp else "controlled_schedules"] += 1
                    k = json_key(got)
                    seen[k] = seen.get(k, 0) + 1
                    shutil.rmtree(os.path.join(d, "p%d%d" % (i, mp)), ignore_errors=True)
            if set(seen) != {json_key(want)}:
                viol.append({"key": "output-depends-on-schedule/%s" % shape, "what": "%s: sequential extraction gives %s; by name (threads and processes, 12 runs): %s" % (
                    shape, json_key(want)[:160], {k[:120]: v for k, v in seen.items()})})
        elif shape == "mp-factory":
            for i in range(3):
                with py7zr.SevenZipFile(path, "w" if i == 0 else "a", filters=cp) as z:
                    z.writestr(b"member-%d" % i * 20, "f%d.txt" % i)
            res = {}
            for mode, kw, src in (("sequential", {}, io.BytesIO(open(path, "rb").read())), ("threads", {}, path), ("processes", {"mp": True}, path)):
                fac = pz.CollectFactory()
                with py7zr.SevenZipFile(src, "r", **kw) as z:
                    z.extractall(factory=fac)
                res[mode] = {k: pz.crc(v) for k, v in fac.as_dict().items()}
                obs["process_runs"] += 1 if mode == "processes" else 0
            if not (res["sequential"] == res["threads"] == res["processes"]):
                viol.append({"key": "factory-output-differs/processes", "what": "extractall(factory=...) delivers %r sequentially, %r with threads, %r with mp=True" % (
                    sorted(res["sequential"]), sorted(res["threads"]), sorted(res["processes"]))})
        elif shape == "mp-large-error":
            # a worker's error that does not fit a pipe buffer: a CrcError carrying a member name of 65000 characters
            long_name = "中/../" * 13000 + "b.txt"
            with py7zr.SevenZipFile(path, "w", filters=cp) as z:
                z.writestr(b"first folder" * 10, "a.txt")
            with py7zr.SevenZipFile(path, "a", filters=cp) as z:
                z._writestr(b"second folder" * 10, long_name)
            data = bytearray(open(path, "rb").read())
            data[32 + 120 + 40] ^= 0x55
            with open(path, "wb") as f:
                f.write(data)
            res = {}
            for mode, kw, src in (("sequential", {}, io.BytesIO(bytes(data))), ("threads", {}, path), ("processes", {"mp": True}, path)):
                try:
                    with py7zr.SevenZipFile(src, "r", **kw) as z:
                        z.extractall(os.path.join(d, "o-" + mode))
                    res[mode] = "returned"
                except Exception as e:
                    res[mode] = "raised " + type(e).__name__
                obs["damaged_runs"] += 1
            if len(set(res.values())) != 1 or res["sequential"] == "returned":
                viol.append({"key": "worker-error-differs/large-error", "what": "damaged folder whose error carries a 65000-character name: %r" % res})
        elif shape in ("name-gone-after-open", "name-replaced-after-open"):
            def build(p_, tag):
                for i in range(3):
                    with py7zr.SevenZipFile(p_, "w" if i == 0 else "a", filters=cp) as z:
                        z.writestr((b"%s-member-%d " % (tag, i)) * 20, "f%d.txt" % i)

            res = {}
            for mode, kw in (("threads", {}), ("processes", {"mp": True}), ("sequential", {"password": "unused"})):
                build(path, b"opened")
                other = os.path.join(d, "other.7z")
                build(other, b"OTHER!")
                out = os.path.join(d, "o-" + mode)
                try:
                    z = py7zr.SevenZipFile(path, "r", **kw)
                    try:
                        if shape == "name-gone-after-open":
                            os.rename(path, os.path.join(d, "moved-%s.7z" % mode)) if r.random() < 0.5 else os.unlink(path)
                        else:
                            os.replace(other, path)
                        z.extractall(out)
                    finally:
                        z.close()
                    t = pz.walk_tree(out)
                    res[mode] = "ok:" + ",".join("%s=%s" % (k, (v.get("data") or b"")[:6].decode()) for k, v in sorted(t.items()))
                except Exception as e:
                    res[mode] = "raised " + type(e).__name__
                obs["damaged_runs"] += 1
                if os.path.exists(path):
                    os.unlink(path)
            if len(set(res.values())) != 1 or "OTHER!" in "".join(res.values()):
                viol.append({"key": "paths-differ/%s" % shape, "what": "three-folder archive opened by name, then its name %s, then extractall(): %r" % (
                    "unlinked or renamed" if shape == "name-gone-after-open" else "given to another archive of the same layout", res)})
        elif shape == "two-objects-one-directory":
            import threading

            os.mkdir(os.path.join(d, "src"))
            with open(os.path.join(d, "src", "t.txt"), "wb") as f:
                f.write(b"target " * 10)
            with py7zr.SevenZipFile(path, "w", filters=cp) as z:
                z.write(os.path.join(d, "src", "t.txt"), "t.txt")
                for i in range(300):
                    lp = os.path.join(d, "src", "l%03d" % i)
                    os.symlink("t.txt", lp)
                    z.write(lp, "l%03d" % i)
            bad = []
            for trial in range(20):
                out = os.path.join(d, "same%d" % trial)
                errs = []

                def run():
                    try:
                        with py7zr.SevenZipFile(path, "r") as z:
                            z.extractall(out)
                    except Exception as e:
                        errs.append(type(e).__name__ + ": " + str(e)[:80])

                ts = [threading.Thread(target=run) for _ in range(3)]
                for t_ in ts:
                    t_.start()
                for t_ in ts:
                    t_.join()
                obs["damaged_runs"] += 1
                if errs:
                    bad.append(errs[0])
                elif len(pz.walk_tree(out)) != 301:
                    bad.append("entries: %d" % len(pz.walk_tree(out)))
            if bad:
                viol.append({"key": "concurrent-objects-disturb/one-directory", "what": "three SevenZipFile objects extracting one archive of 300 link members into one directory at the same time, 20 trials: %d failed (%s)" % (len(bad), bad[0])})
        else:  # chdir-after-open
            for i in range(3):
                with py7zr.SevenZipFile(path, "w" if i == 0 else "a", filters=cp) as z:
                    z.writestr(b"member-%d" % i * 20, "f%d.txt" % i)
            dest = os.path.join(d, "dest")
            os.mkdir(dest)
            cwd = os.getcwd()
            res = {}
            try:
                for mode, kw in (("threads", {}), ("processes", {"mp": True})):
                    os.chdir(d)
                    try:
                        z = py7zr.SevenZipFile("t.7z", "r", **kw)
                        os.chdir(dest)
                        z.extractall(mode)
                        z.close()
                        res[mode] = sorted(_tree_of(os.path.join(dest, mode)))
                    except Exception as e:
                        res[mode] = "raised " + type(e).__name__
            finally:
                os.chdir(cwd)
            want = ["f0.txt", "f1.txt", "f2.txt"]
            if any(v != want for v in res.values()):
                viol.append({"key": "relative-name-after-chdir", "what": "archive opened by a relative name, working directory changed before extractall(): %r (a stream-opened or single-folder archive extracts)" % res})
    cell = "special|" + shape
    if viol:
        return K.result("violated", violations=viol, cells=[cell], obs=obs, sample={"shape": shape})
    return K.result("held", cells=[cell], obs=obs, sample={"shape": shape})


def json_key(x):
    import json

    return json.dumps(x, sort_keys=True, default=str)


def run_case(case):
    import py7zr

    from vf.core import worker as WK

    if case.get("kind") == "special":
        return _run_special(case)
    viol = []
    obs = {k: 0 for k in REQUIRED_OBS}
    obs["random_schedules"] = 0
    cells = set()
    with pz.scratch("vf-c13-") as d:
        folders, data = _build(case)
        want = {n: b for f in folders for n, b in f}
        names = [n for f in folders for n, _ in f]
        path = os.path.join(d, "a.7z")
        with open(path, "wb") as f:
            f.write(data)
        # sequential reference (stream-opened = sequential path)
        gn, seq = pz.read_mem(io.BytesIO(data))
        if gn != names or seq != want:
            return K.result("held", cell="skip-sequential-differs", nontrivial=False, obs={"skipped": 1})
        # ---- controlled schedules over the thread-parallel path
        traces = set()
        prefix = []
        rng = random.Random(case["seed"])
        exhausted = False
        for run in range(case["max_schedules"]):
            use_rng = exhausted or run >= case["max_schedules"] * 2 // 3
            s = sched.Sched(prefix=([] if use_rng else prefix), rng=(rng if use_rng else None))
            fac = GateFactory()
            sched.install(s)
            err = None
            try:
                with WK.inner_budget(20.0):
                    with py7zr.SevenZipFile(path, "r") as z:
                        z.extractall(factory=fac)
            except WK.CpuBudget:
                sched.uninstall()
                raise
            except Exception as e:
                err = e
            finally:
                sched.uninstall()
            obs["controlled_schedules"] += 1
            obs["worker_threads_seen"] = max(obs["worker_threads_seen"], s.workers_seen)
            if use_rng:
                obs["random_schedules"] += 1
            tr = tuple(c for c, _, _ in s.trace)
            traces.add(tr)
            got = fac.as_dict()
            if err is not None:
                viol.append({"key": "parallel-raises/%s" % type(err).__name__, "what": "intact archive, schedule %r: extraction raised %s" % (tr[:30], pz.exc_sig(err))})
                break
            if got != want:
                bad = [n for n in names if got.get(n) != want[n]]
                viol.append({"key": "output-depends-on-schedule", "what": "schedule %r (threads %d): %r differ from the sequential output" % (tr[:40], s.workers_seen, bad[:3])})
                break
            if not use_rng:
                choices = [k for _, _, k in s.trace]
                nxt = sched.next_prefix(s.options, choices)
                if nxt is None:
                    exhausted = True
                    obs["exhausted_trees"] = obs.get("exhausted_trees", 0) + 1
                else:
                    prefix = nxt
        # ---- controlled schedules for DISK extraction (gates at the audit events open/mkdir under the destination)
        seqdir0 = os.path.join(d, "seq0")
        with py7zr.SevenZipFile(io.BytesIO(data)) as z:
            z.extractall(seqdir0)
        seqtree0 = {p_: r_.get("crc") for p_, r_ in pz.walk_tree(seqdir0).items()}
        disk_traces = set()
        for run in range(max(6, case["max_schedules"] // 6)):
            out = os.path.join(d, "sd%d" % run)
            s = sched.Sched(rng=random.Random(rng.getrandbits(32)))
            _disk_gate["root"] = out
            sched.install(s)
            err = None
            try:
                with WK.inner_budget(20.0):
                    with py7zr.SevenZipFile(path, "r") as z:
                        z.extractall(out)
            except WK.CpuBudget:
                sched.uninstall()
                _disk_gate["root"] = None
                raise
            except Exception as e:
                err = e
            finally:
                sched.uninstall()
                _disk_gate["root"] = None
            obs["controlled_disk_schedules"] = obs.get("controlled_disk_schedules", 0) + 1
            disk_traces.add(tuple(c for c, _, _ in s.trace))
            if err is not None:
                viol.append({"key": "parallel-disk-raises/%s" % type(err).__name__, "what": "intact archive, scheduled disk extraction raised %s" % pz.exc_sig(err)})
                break
            tree = {p_: r_.get("crc") for p_, r_ in pz.walk_tree(out).items()}
            if tree != seqtree0:
                viol.append({"key": "disk-output-depends-on-schedule", "what": "scheduled disk extraction (trace %r) differs from the sequential tree" % (list(disk_traces)[-1][:30],)})
                break
        obs["distinct_disk_interleavings"] = len(disk_traces)
        obs["distinct_interleavings"] = len(traces)
        alternating = sum(1 for t in traces if len(set(t)) >= 2 and any(a != b for a, b in zip(t, t[1:])))
        obs["alternating_interleavings"] = alternating
        cells.add("f%d|m%d|%s|threads|traces=%d" % (len(folders), len(names), case["writer"], min(len(traces), 50)))
        # ---- processes: disk extraction, repeated
        seqdir = os.path.join(d, "seq")
        with py7zr.SevenZipFile(io.BytesIO(data)) as z:
            z.extractall(seqdir)
        seqtree = {p: r.get("crc") for p, r in pz.walk_tree(seqdir).items()}
        for i in range(case["mp_runs"]):
            out = os.path.join(d, "mp%d" % i)
            try:
                with py7zr.SevenZipFile(path, "r", mp=True) as z:
                    z.extractall(out)
                tree = {p: r.get("crc") for p, r in pz.walk_tree(out).items()}
                if tree != seqtree:
                    viol.append({"key": "mp-output-differs", "what": "mp=True run %d: tree differs from the sequential tree" % i})
            except Exception as e:
                viol.append({"key": "mp-raises/%s" % type(e).__name__, "what": "mp=True on an intact archive raised %s" % pz.exc_sig(e)})
            obs["process_runs"] += 1
        # thread-parallel disk extraction too (uncontrolled)
        out = os.path.join(d, "thr")
        with py7zr.SevenZipFile(path, "r") as z:
            z.extractall(out)
        if {p: r.get("crc") for p, r in pz.walk_tree(out).items()} != seqtree:
            viol.append({"key": "threads-disk-output-differs", "what": "thread-parallel disk extraction differs from the sequential tree"})
        # ---- independent objects on the same file
        errs = []

        def reader():
            try:
                for _ in range(5):
                    n2, g2 = pz.read_mem(path)
                    if g2 != want:
                        errs.append("content differs")
            except Exception as e:
                errs.append(pz.exc_sig(e))

        ths = [threading.Thread(target=reader) for _ in range(8)]
        for t in ths:
            t._vf_internal = True
            t.start()
        for t in ths:
            t.join()
        obs["concurrent_object_reads"] = 40
        if errs:
            viol.append({"key": "concurrent-objects-disturb", "what": "8 independent SevenZipFile objects on one file: %r" % errs[:3]})
        # ---- errors must reach the caller: one folder damaged at each position
        import struct

        from vf.ref7z import reader as R

        lay = R.parse(data, None, decode=False, strict_tiling=False)
        pos = 32 + lay.streams.pack_pos
        for fi, z_ in enumerate(lay.streams.pack_sizes):
            if z_ < 4:
                pos += z_
                continue
            img = D.apply(data, ["set", pos + z_ // 2, data[pos + z_ // 2] ^ 0x3C])
            dp = os.path.join(d, "dmg%d.7z" % fi)
            with open(dp, "wb") as f:
                f.write(img)
            raised = {}
            for mode in ("sequential", "threads", "processes", "threads-factory"):
                obs["damaged_runs"] += 1
                try:
                    got = None
                    if mode == "threads":
                        with py7zr.SevenZipFile(dp, "r") as z:
                            z.extractall(os.path.join(d, "dx%d%s" % (fi, mode)))
                    elif mode == "processes":
                        with py7zr.SevenZipFile(dp, "r", mp=True) as z:
                            z.extractall(os.path.join(d, "dx%d%s" % (fi, mode)))
                    elif mode == "sequential":
                        fac2 = pz.CollectFactory()
                        with py7zr.SevenZipFile(io.BytesIO(img), "r") as z:
                            z.extractall(factory=fac2)
                        got = fac2.as_dict()
                    else:
                        fac2 = pz.CollectFactory()
                        with py7zr.SevenZipFile(dp, "r") as z:
                            z.extractall(factory=fac2)
                        got = fac2.as_dict()
                    if got is None:
                        tree = pz.walk_tree(os.path.join(d, "dx%d%s" % (fi, mode)))
                        got = {p_: r_.get("data") for p_, r_ in tree.items() if r_["kind"] == "file"}
                    # a changed byte that does not change any decoded byte is harmless: only a normal return
                    # WITH different content means that a worker's error was lost
                    if any(got.get(n_) != b_ for n_, b_ in want.items()):
                        viol.append({"key": "worker-error-lost/%s" % mode, "what": "folder %d of %d damaged: extractall (%s) returned normally with different content" % (fi, len(lay.streams.pack_sizes), mode)})
                    else:
                        obs["damage_harmless"] = obs.get("damage_harmless", 0) + 1
                except Exception as e:
                    obs["damaged_runs_raised"] = obs.get("damaged_runs_raised", 0) + 1
                    raised[mode] = e
            # the error that reaches the caller is the worker's error: the same class the sequential path raises for this very image
            if "sequential" in raised:
                want_cls = type(raised["sequential"])
                for mode, e in raised.items():
                    obs["error_classes_compared"] = obs.get("error_classes_compared", 0) + 1
                    if type(e) is not want_cls and not (isinstance(e, want_cls) or isinstance(raised["sequential"], type(e))):
                        viol.append({"key": "worker-error-replaced/%s" % mode, "what": "folder %d of %d damaged: the sequential path raises %s, extractall (%s) raises %s instead of the worker's error" % (
                            fi, len(lay.streams.pack_sizes), pz.exc_sig(raised["sequential"]), mode, pz.exc_sig(e))})
            pos += z_
        # unwritable output: a sink that fails for one member
        victim = names[-1]
        for src in (path, io.BytesIO(data)):
            try:
                with py7zr.SevenZipFile(src, "r") as z:
                    z.extractall(factory=FailingFactory(victim))
                viol.append({"key": "sink-error-lost/%s" % ("parallel" if isinstance(src, str) else "sequential"), "what": "a failing write for %r did not reach the caller" % victim})
            except Exception:
                obs["sink_errors_raised"] = obs.get("sink_errors_raised", 0) + 1
    sample = {"folders": [len(f) for f in folders], "writer": case["writer"], "chain": case["chain"], "distinct_interleavings": obs["distinct_interleavings"],
              "example_trace": list(next(iter(traces)))[:30] if traces else []}
    if obs["worker_threads_seen"] < 2 and not viol:
        return K.result("inconclusive", key="no-second-worker", what="the scheduler saw %d worker threads" % obs["worker_threads_seen"], obs=obs, sample=sample)
    if viol:
        seen = {}
        for v in viol:
            seen.setdefault(v["key"], v)
        return K.result("violated", violations=list(seen.values()), cells=sorted(cells), obs=obs, sample=sample)
    return K.result("held", cells=sorted(cells), obs=obs, sample=sample)


def on_abnormal(case, kind, info):
    if kind in ("cpu-budget", "deadlock"):
        return K.result("violated", key="hang/" + kind, what="parallel extraction did not finish (%s)" % kind)
    return None
