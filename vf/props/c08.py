"""C08 — append preserves history (history + model, two readers, before/after records of the reference reader)."""
import glob
import io
import os
import random
import shutil

from vf.core import pz
from vf.gen import basic as G
from vf.gen import layouts as L
from vf.props import common as K
from vf.props.c06 import FIXTURE_PW, FIXTURE_SKIP
from vf.ref7z import reader as R
from vf.ref7z import writer as W

LEVEL = "exploration"
CASE_TIMEOUT = 300
CPU_BUDGET = 150
REQUIRED_OBS = ["append_sessions", "earlier_members_rechecked", "histories"]
RULE = ("histories w(M0,F0) a(M1,F1)..a(Mk,Fk), k<=3: base written by py7zr, by the reference writer (C06 layout features) or taken from the fixtures; "
        "appended members via writestr / writef / write(file) / write(directory) / write(zero-length file); Mi possibly empty, only directories, only empty files; "
        "any chain per session, password constant, header mode any. After EVERY session the archive is read by py7zr and by the reference reader: member "
        "sequence == M0|..|Mj (names, bytes, kinds); each earlier member's reference record (name, kind, size, crc, mtime, attributes, bytes) before the session == "
        "after it; no structural finding. Bases py7zr cannot read at all are C06's business and skipped. Cell = (base kind + features, session chains, member kinds added).")
ASSUMPTIONS = ["a member CRC may move between folder level and file level (the reference reader reports it either way); losing it is a change"]


def _session(rng, s, pw):
    ch = G.chain(rng, aes=(None if pw is not None else False))
    if any(c["f"] == "DEFLATE64" for c in ch):  # py7zr refuses Deflate64 on append
        ch = G.chain(rng, comp="DEFLATE", aes=(None if pw is not None else False))
    n = rng.choice([0, 1, 1, 2, 3])
    items = []
    style = rng.choice(["mixed", "mixed", "only-dirs", "only-empty", "files"])
    for i in range(n):
        how = {"only-dirs": "write_dir", "only-empty": "write_empty", "files": rng.choice(["writestr", "writef", "write_file"])}.get(style) or rng.choice(
            ["writestr", "writestr", "writef", "write_file", "write_dir", "write_empty"])
        items.append({"how": how, "name": "s%d/%s_%d" % (s, "".join(rng.choice("abcxyz") for _ in range(3)), i), "content": G.content_recipe(rng, max_len=20000)})
    header = rng.choice(["encoded", "raw"] + (["encrypted_setter"] if pw is not None else []))
    return {"chain": ch, "items": items, "header": header}


def cases(rng, tier):
    out = []
    n = 260 if tier == "quick" else 5000
    root = os.environ.get("VERIF_REPO", "/repo")
    fixtures = [p for p in sorted(glob.glob(os.path.join(root, "tests", "data", "*.7z"))) if os.path.basename(p) not in FIXTURE_SKIP]
    for p in fixtures:
        pw = FIXTURE_PW.get(os.path.basename(p))
        out.append({"base": {"kind": "fixture", "path": p}, "password": pw, "sessions": [_session(rng, 1, pw)]})
    while len(out) < n:
        r = rng.random()
        k = rng.choice([1, 1, 2, 3])
        if r < 0.5:
            pw = rng.choice(G.PASSWORDS) if rng.random() < 0.3 else None
            base = {"kind": "py", "session": _session(rng, 0, pw)}
            if not base["session"]["items"] and rng.random() < 0.7:
                base["session"]["items"] = [{"how": "writestr", "name": "s0/base", "content": G.content_recipe(rng, max_len=5000)}]
        else:
            c = L.gen_case(rng, max_len=6000, force={"trailing": 0})
            pw = c["password"]
            base = {"kind": "ref", "case": c}
        out.append({"base": base, "password": pw, "sessions": [_session(rng, s + 1, pw) for s in range(k)]})
    # session-level shapes: what an append session does to the archive it finds (from a bug hunt on the unmodified tree)
    shapes = ["stream-not-rewound", "unknown-file-property", "damaged-header", "not-an-archive", "empty-file", "wrong-password", "test-inside-append", "testzip-inside-append",
              "extract-inside-append", "refused-chain",
              # fourth hunt: an archive the user may write but not read; a file object opened in append mode; members stored without a name
              "write-only-archive", "append-mode-fileobject", "nameless-members"]
    for i in range(len(shapes) * (1 if tier == "quick" else 20)):
        out.append({"kind": "special", "shape": shapes[i % len(shapes)], "seed": rng.getrandbits(32), "password": None, "base": None})
    return out


def _do_session(z, sess, srcdir, model):
    import py7zr  # noqa

    for it in sess["items"]:
        data = G.materialise(it["content"])
        how = it["how"]
        name = it["name"]
        if how == "writestr":
            z.writestr(data, name)
            model.append({"name": name, "kind": "file", "data": data})
        elif how == "writef":
            z.writef(io.BytesIO(data), name)
            model.append({"name": name, "kind": "file", "data": data})
        elif how == "write_file":
            p = os.path.join(srcdir, "f%d" % len(os.listdir(srcdir)))
            with open(p, "wb") as f:
                f.write(data)
            z.write(p, name)
            model.append({"name": name, "kind": "file", "data": data})
        elif how == "write_dir":
            p = os.path.join(srcdir, "d%d" % len(os.listdir(srcdir)))
            os.mkdir(p)
            z.write(p, name)
            model.append({"name": name, "kind": "dir", "data": None})
        elif how == "write_empty":
            p = os.path.join(srcdir, "e%d" % len(os.listdir(srcdir)))
            open(p, "wb").close()
            z.write(p, name)
            model.append({"name": name, "kind": "file", "data": b""})


def _check(path, pw, model, prev, viol, obs, tag):
    """Read with both readers, compare with the model and with the previous reference records."""
    with open(path, "rb") as f:
        data = f.read()
    try:
        arc = R.parse(data, pw, strict_tiling=False)  # gaps (PackPos>0) of a foreign base are legal; tiling of py7zr's own output is C07's
    except Exception as e:
        viol.append({"key": "ref-rejects/%s" % type(e).__name__, "what": "%s: reference reader rejects the archive: %s" % (tag, pz.exc_sig(e))})
        return None
    for fnd in arc.findings:
        code, _, text = fnd.partition("| ")
        viol.append({"key": "structure/" + code, "what": "%s: %s" % (tag, text[:250])})
    recs = arc.records()
    names = [m["name"] for m in model]
    rn = [(r["name"] or "").replace("\\", "/") for r in recs]
    if rn != names:
        k = "members-dropped" if len(rn) < len(names) else ("members-reordered-or-renamed" if len(rn) == len(names) else "members-added")
        viol.append({"key": "ref-sequence/" + k, "what": "%s: reference reader lists %r, history says %r" % (tag, rn[:8], names[:8])})
        return recs
    for m, rm, rec in zip(model, arc.members, recs):
        if m["kind"] == "dir":
            if not rm.is_dir:
                viol.append({"key": "ref-kind/dir-as-%s" % rec["kind"], "what": "%s: %r appended as directory, a conforming reader sees %s" % (tag, m["name"], rec["kind"])})
        elif m["kind"] == "emptyfile":
            if rm.is_dir or rm.has_stream and rm.size:
                viol.append({"key": "ref-kind/emptyfile-as-%s" % rec["kind"], "what": "%s: empty file %r is %s for a conforming reader" % (tag, m["name"], rec["kind"])})
        elif m["kind"] in ("file", "symlink"):
            if rm.is_dir:
                viol.append({"key": "ref-kind/file-as-dir", "what": "%s: %r is a directory for a conforming reader" % (tag, m["name"])})
            elif m.get("data") is not None and (rm.data or b"") != m["data"]:
                viol.append({"key": "ref-bytes", "what": "%s: %r: reference reader recovers %d bytes, history has %d" % (tag, m["name"], len(rm.data or b""), len(m["data"]))})
    if prev is not None:
        for i, (a, b) in enumerate(zip(prev, recs)):
            obs["earlier_members_rechecked"] += 1
            for field in ("name", "kind", "size", "crc", "mtime", "ctime", "atime", "attributes", "data_crc"):
                if a[field] != b[field]:
                    if field == "crc" and a[field] is None:
                        # a CRC that was not there before: integrity information gained, nothing of the member changed
                        obs["diag_crc_gained"] = obs.get("diag_crc_gained", 0) + 1
                        continue
                    if field == "name" and (a[field] or "").replace("\\", "/") == (b[field] or "").replace("\\", "/"):
                        continue  # path separators are equivalent
                    viol.append({"key": "earlier-member-changed/%s%s" % (field, "/" + a["kind"] + "->" + b["kind"] if field == "kind" else ""),
                                 "what": "%s: member %d %r: %s was %r, now %r" % (tag, i, a["name"], field, a[field], b[field])})
                    break
    # py7zr's own reading
    try:
        gn, got = pz.read_mem(path, pw)
        if gn != names:
            viol.append({"key": "py-sequence", "what": "%s: py7zr lists %r, history says %r" % (tag, gn[:8], names[:8])})
        else:
            for m in model:
                if m["kind"] in ("file", "emptyfile", "symlink") and m.get("data") is not None and got.get(m["name"].lstrip("/")) != m["data"]:
                    viol.append({"key": "py-bytes", "what": "%s: py7zr delivers %r bytes for %r, history has %d" % (tag, None if m["name"] not in got else len(got[m["name"]]), m["name"], len(m["data"]))})
                    break
    except Exception as e:
        viol.append({"key": "py-read-raises/%s" % type(e).__name__, "what": "%s: py7zr cannot read the archive back: %s" % (tag, pz.exc_sig(e))})
    return recs


def _run_special(case):
    """An append session on an archive it cannot or must not take over: the old members survive, or the call says why not
    and leaves the bytes alone."""
    import hashlib

    import py7zr

    r = random.Random(case["seed"])
    shape = case["shape"]
    viol = []
    obs = {k: 0 for k in REQUIRED_OBS}
    obs["histories"] = 1
    obs["append_sessions"] = 1
    old = [("old-%d.txt" % i, G.materialise(G.content_recipe(r, max_len=3000))) for i in range(r.randint(1, 3))]
    new = ("appended.bin", b"appended " * 30)
    pw = "right-password" if shape == "wrong-password" else None

    def base_bytes():
        b = io.BytesIO()
        with py7zr.SevenZipFile(b, "w", password=pw, header_encryption=bool(pw)) as z:
            for n, dta in old:
                z.writestr(dta, n)
        return b.getvalue()

    def read_back(data, password=None):
        return pz.read_mem(data, password)

    want_all = [n for n, _ in old] + [new[0]]
    tag = "append session, shape %s" % shape
    with pz.scratch("vf-c08s-") as d:
        if shape == "stream-not-rewound":
            b = io.BytesIO()
            with py7zr.SevenZipFile(b, "w") as z:
                for n, dta in old:
                    z.writestr(dta, n)
            # the caller does not rewind: the stream stands wherever the first session left it
            with py7zr.SevenZipFile(b, "a") as z:
                z.writestr(new[1], new[0])
            gn, got = read_back(b.getvalue())
            if gn != want_all or any(got.get(n) != dta for n, dta in old):
                viol.append({"key": "append-drops-history/stream-not-rewound", "what": "%s: archive now lists %r, history says %r" % (tag, gn, want_all)})
        elif shape in ("unknown-file-property", "damaged-header", "not-an-archive", "wrong-password"):
            if shape == "unknown-file-property":
                mem = [{"name": n, "kind": "file", "data": dta, "attributes": 0x20, "mtime": 132000000000000000 + i} for i, (n, dta) in enumerate(old)]
                # a kComment (0x16) property of one byte at the end of FilesInfo: valid, but not known to this reader
                data = W.build(mem, {"folders": [{"n": len(mem), "chain": [{"m": "LZMA2"}], "crc": "sub"}], "header": "raw"}, header_bytes_hook=lambda h: h[:-2] + bytes([0x16, 0x01, 0x00]) + h[-2:])
            elif shape == "damaged-header":
                data = bytearray(base_bytes())
                data[-5] ^= 0xFF
                data = bytes(data)
            elif shape == "not-an-archive":
                data = b"just some text, not an archive\n" * 4
            else:
                data = base_bytes()
            path = os.path.join(d, "a.7z")
            with open(path, "wb") as f:
                f.write(data)
            h0 = hashlib.sha256(data).hexdigest()
            err = None
            try:
                with py7zr.SevenZipFile(path, "a", password=("Right-Password" if shape == "wrong-password" else None)) as z:
                    z.writestr(new[1], new[0])
            except Exception as e:
                err = e
            now = open(path, "rb").read()
            if err is None:
                viol.append({"key": "append-takes-over/%s" % shape, "what": "%s: the session ended normally; the file now lists %r" % (tag, _names_or_error(now))})
            elif hashlib.sha256(now).hexdigest() != h0:
                viol.append({"key": "append-modifies-despite-error/%s" % shape, "what": "%s: raised %s but the file changed (%d -> %d bytes)" % (tag, pz.exc_sig(err), len(data), len(now))})
            else:
                obs["appends_refused_and_file_intact"] = 1
        elif shape == "empty-file":
            path = os.path.join(d, "new.7z")
            open(path, "wb").close()
            with py7zr.SevenZipFile(path, "a") as z:
                z.writestr(new[1], new[0])
            gn, got = read_back(open(path, "rb").read())
            if gn != [new[0]] or got.get(new[0]) != new[1]:
                viol.append({"key": "append-to-empty-file", "what": "%s: archive lists %r" % (tag, gn)})
        elif shape in ("test-inside-append", "testzip-inside-append", "extract-inside-append"):
            path = os.path.join(d, "a.7z")
            with open(path, "wb") as f:
                f.write(base_bytes())
            src = path if r.random() < 0.5 else io.BytesIO(open(path, "rb").read())
            try:
                z = py7zr.SevenZipFile(src, "a")
                try:
                    if shape.startswith("test-"):
                        z.test()
                    elif shape.startswith("testzip"):
                        z.testzip()
                    else:
                        z.extractall(factory=pz.CollectFactory())
                except ValueError:
                    obs["read_calls_refused_in_append"] = 1
                z.writestr(new[1], new[0])
                z.close()
                data = open(path, "rb").read() if isinstance(src, str) else src.getvalue()
                gn, got = read_back(data)
                if gn != want_all or any(got.get(n) != dta for n, dta in old) or got.get(new[0]) != new[1]:
                    viol.append({"key": "append-alters-history/%s" % shape, "what": "%s: archive lists %r, history says %r (or bytes differ)" % (tag, gn, want_all)})
            except Exception as e:
                viol.append({"key": "append-breaks-archive/%s/%s" % (shape, type(e).__name__), "what": "%s: %s" % (tag, pz.exc_sig(e))})
        elif shape == "refused-chain":
            b = io.BytesIO(base_bytes())
            err = None
            try:
                with py7zr.SevenZipFile(b, "a", filters=[{"id": py7zr.FILTER_DELTA}, {"id": py7zr.FILTER_ZSTD}]) as z:
                    z.writestr(new[1], new[0])
            except Exception as e:
                err = e
            try:
                gn, got = read_back(b.getvalue())
                if gn[: len(old)] != [n for n, _ in old] or any(got.get(n) != dta for n, dta in old):
                    viol.append({"key": "append-alters-history/refused-chain", "what": "%s (%s): archive lists %r" % (tag, pz.exc_sig(err) if err else "no error", gn)})
            except Exception as e:
                viol.append({"key": "append-breaks-archive/refused-chain/%s" % type(e).__name__, "what": "%s: the session raised %s; afterwards the archive cannot be read: %s" % (
                    tag, pz.exc_sig(err) if err else "nothing", pz.exc_sig(e))})
        if shape == "write-only-archive":
            # mode 0222, opened with 'a' by a user who is not root: whatever the session does, the members stay
            p_ = os.path.join(d, "wo.7z")
            data = base_bytes()
            with open(p_, "wb") as f:
                f.write(data)
            os.chmod(p_, 0o222)
            os.chmod(d, 0o777)
            pid = os.fork()
            if pid == 0:
                code = 0
                try:
                    os.setgid(65534)
                    os.setuid(65534)
                    try:
                        with py7zr.SevenZipFile(p_, "a") as z:
                            z.writestr(new[1], new[0])
                    except BaseException:
                        code = 3
                finally:
                    os._exit(code)
            _, st = os.waitpid(pid, 0)
            obs["forked_sessions"] = 1
            os.chmod(p_, 0o644)
            with open(p_, "rb") as f:
                now = f.read()
            try:
                gn, got = read_back(now)
                if gn[: len(old)] != [n for n, _ in old] or any(got.get(n) != dta for n, dta in old):
                    viol.append({"key": "append-drops-history/write-only-archive", "what": "%s (session %s): archive lists %r" % (tag, "raised" if os.WEXITSTATUS(st) == 3 else "ended normally", gn)})
            except Exception as e:
                viol.append({"key": "append-breaks-archive/write-only-archive", "what": "%s: an archive of %d bytes with mode 0222, opened with mode 'a' by uid 65534 (session %s): the file now has %d bytes and cannot be read: %s" % (
                    tag, len(data), "raised" if os.WEXITSTATUS(st) == 3 else "ended normally", len(now), pz.exc_sig(e))})
        elif shape == "append-mode-fileobject":
            for fmode, smode in (("a+b", "a"), ("ab", "w"), ("a+b", "w")):
                p_ = os.path.join(d, "ao-%s-%s.7z" % (fmode.replace("+", "p"), smode))
                data = base_bytes()
                if smode == "a":
                    with open(p_, "wb") as f:
                        f.write(data)
                err = None
                fo = open(p_, fmode)
                try:
                    with py7zr.SevenZipFile(fo, smode) as z:
                        z.writestr(new[1], new[0])
                except Exception as e:
                    err = e
                finally:
                    fo.close()
                with open(p_, "rb") as f:
                    now = f.read()
                want = want_all if smode == "a" else [new[0]]
                if err is not None:
                    # refused: an append must leave the bytes alone
                    if smode == "a" and now != data:
                        viol.append({"key": "refused-append-modifies/append-mode-fileobject", "what": "%s: session on open(p, %r) raised %s but changed the file" % (tag, fmode, pz.exc_sig(err))})
                    continue
                try:
                    gn, got = read_back(now)
                except Exception as e:
                    gn = "unreadable: " + pz.exc_sig(e)
                if gn != want:
                    viol.append({"key": "session-lost/append-mode-fileobject/%s" % smode, "what": "%s: SevenZipFile(open(p, %r), %r) ended without error; the file (%d bytes) lists %r, the sessions wrote %r" % (
                        tag, fmode, smode, len(now), gn, want)})
        elif shape == "nameless-members":
            root = os.environ.get("VERIF_REPO", "/repo")
            for fx in ("github_14.7z", "github_14_multi.7z"):
                src_ = os.path.join(root, "tests", "data", fx)
                if not os.path.exists(src_):
                    continue
                with open(src_, "rb") as f:
                    data = f.read()
                p_ = os.path.join(d, fx)
                for route in ("stream-then-path", "path-then-stream", "path-then-path"):
                    with open(p_, "wb") as f:
                        f.write(data)
                    try:
                        if route == "stream-then-path":
                            before = py7zr.SevenZipFile(p_).getnames()
                            b = io.BytesIO(data)
                            with py7zr.SevenZipFile(b, "a") as z:
                                z.writestr(new[1], new[0])
                            with open(p_, "wb") as f:
                                f.write(b.getvalue())
                            after = py7zr.SevenZipFile(p_).getnames()
                        else:
                            before = py7zr.SevenZipFile(io.BytesIO(data)).getnames() if route == "path-then-stream" else py7zr.SevenZipFile(p_).getnames()
                            with py7zr.SevenZipFile(p_, "a") as z:
                                z.writestr(new[1], new[0])
                            with open(p_, "rb") as f:
                                nd = f.read()
                            after = py7zr.SevenZipFile(io.BytesIO(nd)).getnames() if route == "path-then-stream" else py7zr.SevenZipFile(p_).getnames()
                        obs["nameless_routes"] = obs.get("nameless_routes", 0) + 1
                        if after != before + [new[0]]:
                            viol.append({"key": "append-renames-member/nameless", "what": "%s, %s (%s): members read %r before the append session and %r after it (same way of opening)" % (tag, fx, route, before, after)})
                    except Exception as e:
                        viol.append({"key": "append-raises/nameless/%s" % type(e).__name__, "what": "%s, %s (%s): %s" % (tag, fx, route, pz.exc_sig(e))})
    cell = "special|" + shape
    if viol:
        return K.result("violated", violations=viol, cell=cell, obs=obs, sample={"shape": shape})
    return K.result("held", cell=cell, obs=obs, sample={"shape": shape})


def _names_or_error(data):
    try:
        return pz.read_mem(data)[0]
    except Exception as e:
        return "unreadable: " + pz.exc_sig(e)


def run_case(case):
    import py7zr

    if case.get("kind") == "special":
        return _run_special(case)
    viol = []
    obs = {k: 0 for k in REQUIRED_OBS}
    pw = case["password"]
    base = case["base"]
    model = []
    with pz.scratch("vf-c08-") as d:
        path = os.path.join(d, "h.7z")
        srcdir = os.path.join(d, "src")
        os.mkdir(srcdir)
        basecell = base["kind"]
        try:
            if base["kind"] == "py":
                s = base["session"]
                try:
                    with py7zr.SevenZipFile(path, "w", filters=G.resolve_chain(s["chain"]), password=pw) as z:
                        if s["header"] == "raw":
                            z.set_encoded_header_mode(False)
                        elif s["header"] == "encrypted_setter":
                            z.set_encrypted_header(True)
                        _do_session(z, s, srcdir, model)
                except py7zr.exceptions.UnsupportedCompressionMethodError:
                    return K.result("held", cell="rejected", nontrivial=False, obs={"rejected_by_writer": 1})
                basecell = "py|" + G.chain_label(s["chain"]) + "|" + s["header"]
            elif base["kind"] == "ref":
                c = base["case"]
                members, layout = L.realise(c)
                with open(path, "wb") as f:
                    f.write(W.build(members, layout, password=pw, rng=random.Random(c["seed"])))
                for m in members:
                    model.append({"name": m["name"], "kind": m["kind"], "data": m.get("data") if m["kind"] in ("file", "symlink") else (b"" if m["kind"] == "emptyfile" else None)})
                basecell = "ref|" + "|".join(sorted(L.non_default_features(c))[:5])
            else:
                shutil.copy(base["path"], path)
                arc0 = R.parse(open(path, "rb").read(), pw, strict_tiling=False)
                for m in arc0.members:
                    kind = "dir" if m.is_dir else ("file" if m.has_stream else "emptyfile")
                    model.append({"name": (m.name or "").replace("\\", "/"), "kind": kind, "data": m.data if m.has_stream else (b"" if kind == "emptyfile" else None)})
                basecell = "fixture|" + os.path.basename(base["path"])
        except (R.RefError, Exception) as e:
            return K.result("held", cell="skip-base", nontrivial=False, obs={"skipped_base_unusable": 1}, sample={"skip": pz.exc_sig(e)})
        # the base must be readable by py7zr as it stands, otherwise this is C06's defect, not an append problem
        try:
            gn, _ = pz.read_mem(path, pw)
            if gn != [m["name"] for m in model]:
                raise ValueError("names differ")
            base_arc = R.parse(open(path, "rb").read(), pw, strict_tiling=False)
            if base_arc.findings:
                raise ValueError("reference findings on base: %r" % base_arc.findings[:1])
            prev = base_arc.records()
        except Exception as e:
            return K.result("held", cell="skip-base-unreadable|" + base["kind"], nontrivial=False, obs={"skipped_base_unreadable": 1}, sample={"skip": pz.exc_sig(e)[:200]})
        obs["histories"] = 1
        added = set()
        for si, s in enumerate(case["sessions"]):
            tag = "after append %d (%s, header %s) onto %s" % (si + 1, G.chain_label(s["chain"]), s["header"], basecell[:60])
            before_model = len(model)
            try:
                with py7zr.SevenZipFile(path, "a", filters=G.resolve_chain(s["chain"]), password=pw) as z:
                    if s["header"] == "raw":
                        z.set_encoded_header_mode(False)
                    elif s["header"] == "encrypted_setter":
                        z.set_encrypted_header(True)
                    _do_session(z, s, srcdir, model)
            except py7zr.exceptions.UnsupportedCompressionMethodError:
                del model[before_model:]
                obs["rejected_append"] = obs.get("rejected_append", 0) + 1
                break
            except Exception as e:
                import traceback

                ctx = e
                rejected = False
                while ctx is not None:
                    if isinstance(ctx, py7zr.exceptions.UnsupportedCompressionMethodError):
                        rejected = True
                    ctx = ctx.__context__
                del model[before_model:]
                if rejected:
                    # the chain was refused (lazily, at the first write); what a failed session leaves behind is C14/C15's business
                    obs["rejected_append"] = obs.get("rejected_append", 0) + 1
                    break
                tb = traceback.extract_tb(e.__traceback__)
                where = next((f.name for f in reversed(tb) if "/py7zr/" in f.filename), "?")
                viol.append({"key": "append-raises/%s@%s" % (type(e).__name__, where), "what": "%s: append session raised %s" % (tag, pz.exc_sig(e))})
                break
            obs["append_sessions"] += 1
            added |= {it["how"] for it in s["items"]} or {"nothing"}
            prev = _check(path, pw, model, prev, viol, obs, tag)
            if viol or prev is None:
                break
    cell = "%s|%s|%s" % (basecell, "+".join(G.chain_label(s["chain"]) for s in case["sessions"])[:60], ",".join(sorted(added)))
    sample = {"base": basecell, "sessions": [(G.chain_label(s["chain"]), s["header"], [i["how"] for i in s["items"]]) for s in case["sessions"]], "members": len(model)}
    if viol and any(c["f"] == "PPMD" for s in case["sessions"] for c in s["chain"]):
        for s in case["sessions"]:
            blob = [G.materialise(i["content"]) for i in s["items"] if i["how"] in ("writestr", "writef", "write_file")]
            if any(c["f"] == "PPMD" for c in s["chain"]) and K.pyppmd_faulty(s["chain"], blob):
                viol = [{"key": "codec-library/pyppmd-roundtrip", "what": "pyppmd alone cannot round-trip this input (symptom: %s)" % viol[0]["what"][:150]}]
                break
    if viol:
        seen = {}
        for v in viol:
            seen.setdefault(v["key"], v)
        return K.result("violated", violations=list(seen.values()), cell=cell, obs=obs, sample=sample)
    return K.result("held", cell=cell, obs=obs, sample=sample, nontrivial=obs["append_sessions"] > 0)


def on_abnormal(case, kind, info):
    if kind in ("cpu-budget", "deadlock"):
        return K.result("violated", key="hang/" + kind, what="append history did not finish (%s)" % kind)
    return None
