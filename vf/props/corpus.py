"""Corpus of small valid archives (C04, C05, C12, C13, C19 damage workloads).
Built in a subprocess that imports py7zr from the tree under test; the bytes travel inside the
cases (hex), so every worker sees the same archive although py7zr's output is not reproducible
(timestamps, random IVs).

python -m vf.props.corpus <tier> <seed>  ->  JSON list on stdout
"""
import io
import json
import os
import random
import subprocess
import sys

TEXTS = [b"The quick brown fox jumps over the lazy dog.\n", b"0123456789abcdef" * 3, b"\x00\x01\x02\xff\xfe payload with binary \x80\x81", b"lorem ipsum dolor sit amet " * 2,
         b"A", b"second member body, somewhat longer than the first one to make solid blocks interesting\n"]


def _members(r, n):
    out = []
    for i in range(n):
        t = TEXTS[(i + r.randrange(len(TEXTS))) % len(TEXTS)]
        out.append(("m%d.txt" % i if i % 2 == 0 else "dir/m%d.bin" % i, t + bytes([65 + i])))
    return out


def build(tier, seed):
    sys.path.insert(0, os.path.dirname(os.path.dirname(os.path.dirname(os.path.abspath(__file__)))))
    from vf.core.worker import setup_repo_path

    setup_repo_path()
    import py7zr
    from py7zr import properties as P

    from vf.ref7z import reader as R
    from vf.ref7z import writer as W

    r = random.Random("corpus/%s/%s" % (tier, seed))
    out = []

    def add(label, data, pw, members, origin):
        # only archives the reference reader accepts and py7zr reads back correctly are bases
        try:
            arc = R.parse(data, pw, strict_tiling=False)
            if arc.findings:
                return
            f = py7zr.io.BytesIOFactory(1 << 30)
            with py7zr.SevenZipFile(io.BytesIO(data), password=pw) as z:
                names = z.getnames()
                z.extractall(factory=f)
            got = {k: v.read() for k, v in f.products.items()}
            if names != [n for n, _ in members] or any(got.get(n) != b for n, b in members):
                return
        except Exception:
            return
        out.append({"label": label, "origin": origin, "hex": data.hex(), "password": pw, "members": [[n, b.hex()] for n, b in members],
                    "folders": len(arc.streams.folders) if arc.streams else 0, "pack_total": sum(arc.streams.pack_sizes) if arc.streams else 0,
                    "pack_crcs": arc.layout.get("pack_crcs", 0), "header": arc.layout.get("header")})

    py_chains = [
        ("default", None, None), ("lzma2", [{"id": P.FILTER_LZMA2, "preset": 1}], None), ("lzma", [{"id": P.FILTER_LZMA, "preset": 1}], None),
        ("bzip2", [{"id": P.FILTER_BZIP2}], None), ("deflate", [{"id": P.FILTER_DEFLATE}], None), ("copy", [{"id": P.FILTER_COPY}], None),
        ("zstd", [{"id": P.FILTER_ZSTD, "level": 3}], None), ("ppmd", [{"id": P.FILTER_PPMD, "order": 6, "mem": 16}], None),
        ("brotli", [{"id": P.FILTER_BROTLI, "level": 4}], None), ("deflate64", [{"id": P.FILTER_DEFLATE64}], None),
        ("lzma2+aes", [{"id": P.FILTER_LZMA2, "preset": 1}, {"id": P.FILTER_CRYPTO_AES256_SHA256}], "secret"),
        ("copy+aes", [{"id": P.FILTER_COPY}, {"id": P.FILTER_CRYPTO_AES256_SHA256}], "secret"),
        ("bcj+lzma2", [{"id": P.FILTER_X86}, {"id": P.FILTER_LZMA2, "preset": 1}], None),
        ("delta+lzma2", [{"id": P.FILTER_DELTA}, {"id": P.FILTER_LZMA2, "preset": 1}], None),
        ("arm+zstd", [{"id": P.FILTER_ARM}, {"id": P.FILTER_ZSTD, "level": 1}], None),
    ]
    for label, filters, pw in py_chains:
        for hdr in ("encoded", "raw") if tier == "thorough" or label in ("default", "lzma2+aes", "copy") else ("encoded",):
            for nsess in ((1, 3) if label in ("default", "copy", "lzma2", "lzma2+aes", "zstd") else (1,)):
                buf = io.BytesIO()
                mem = []
                try:
                    for s in range(nsess):
                        mm = [("s%d_%s" % (s, n), b) for n, b in _members(r, 2 if nsess > 1 else 3)]
                        with py7zr.SevenZipFile(buf, "w" if s == 0 else "a", filters=filters, password=pw) as z:
                            if hdr == "raw":
                                z.set_encoded_header_mode(False)
                            for n, b in mm:
                                z.writestr(b, n)
                        mem += mm
                        buf.seek(0)
                except Exception:
                    continue
                add("py/%s/%s/f%d" % (label, hdr, nsess), buf.getvalue(), pw, mem, "py7zr")
    # headers that the codec alone does not protect: names LZMA2 stores uncompressed, and an encrypted (AES-only) header
    cjk = "".join(chr(0x4E00 + (i * 37) % 2000) for i in range(24))
    for label, names, filters, pw, enc in (("py/default/encoded/cjk-names", [cjk + ".txt", "目录/" + cjk[::-1]], None, None, False),
                                           ("py/lzma2+aes/encrypted-header/f1", ["alpha.txt", "dir/beta.bin"], None, "secret", True)):
        buf = io.BytesIO()
        mm = [(n, TEXTS[i % len(TEXTS)] + bytes([70 + i])) for i, n in enumerate(names)]
        try:
            with py7zr.SevenZipFile(buf, "w", filters=filters, password=pw, header_encryption=enc) as z:
                for n, b in mm:
                    z.writestr(b, n)
        except Exception:
            continue
        add(label, buf.getvalue(), pw, mm, "py7zr")
    ref_layouts = [
        ("ref/lzma2/sub", {"folders": [{"n": 3, "chain": [{"m": "LZMA2"}], "crc": "sub"}], "header": "lzma+crc"}),
        ("ref/lzma2/packcrc", {"folders": [{"n": 3, "chain": [{"m": "LZMA2"}], "crc": "sub"}], "header": "lzma+crc", "pack_crc": True}),
        ("ref/copy/packcrc/raw", {"folders": [{"n": 3, "chain": [{"m": "COPY"}], "crc": "sub"}], "header": "raw", "pack_crc": True}),
        ("ref/nonsolid/3", {"folders": [{"n": 1, "chain": [{"m": "LZMA2"}], "crc": "sub"}, {"n": 1, "chain": [{"m": "COPY"}], "crc": "sub"}, {"n": 1, "chain": [{"m": "DEFLATE"}], "crc": "sub"}], "header": "raw"}),
        ("ref/lzma/hdr-nocrc", {"folders": [{"n": 3, "chain": [{"m": "LZMA"}], "crc": "sub"}], "header": "lzma"}),
        ("ref/foldercrc/single", {"folders": [{"n": 1, "chain": [{"m": "LZMA2"}], "crc": "folder"}, {"n": 1, "chain": [{"m": "COPY"}], "crc": "folder"}, {"n": 1, "chain": [{"m": "COPY"}], "crc": "folder"}], "header": "raw"}),
        ("ref/aes/packcrc", {"folders": [{"n": 3, "chain": [{"m": "LZMA2"}, {"m": "7zAES", "cycles": 6}], "crc": "sub"}], "header": "lzma+crc", "pack_crc": True}),
        # pack CRCs defined for some of the packed streams only: test() can vouch for those, not for the archive (third hunt)
        ("ref/partial-packcrc", {"folders": [{"n": 1, "chain": [{"m": "COPY"}], "crc": "sub"}, {"n": 1, "chain": [{"m": "LZMA2"}], "crc": "sub"}, {"n": 1, "chain": [{"m": "COPY"}], "crc": "sub"}], "header": "raw", "pack_crc": "partial"}),
        # packed streams that do not start right behind the signature header (PackPos > 0): every place that positions the
        # decoder must add it, reset() included (seed C12c-reset-ignores-packpos)
        ("ref/packpos/3", {"folders": [{"n": 2, "chain": [{"m": "LZMA2"}], "crc": "sub"}, {"n": 1, "chain": [{"m": "COPY"}], "crc": "sub"}], "header": "raw", "packpos": 37}),
        ("ref/4folders", {"folders": [{"n": 1, "chain": [{"m": "COPY"}], "crc": "sub"}] * 3, "header": "lzma+crc"}),
    ]
    for label, lay in ref_layouts:
        nm = sum(f["n"] for f in lay["folders"])
        mm = _members(r, nm)
        members = [{"name": n, "kind": "file", "data": b, "mtime": 132000000000000000 + i, "attributes": 0x20} for i, (n, b) in enumerate(mm)]
        pw = "secret" if "aes" in label else None
        try:
            data = W.build(members, lay, password=pw, rng=r)
        except Exception:
            continue
        add(label, data, pw, mm, "ref")
    return out


_cache = {}


def get(tier, seed):
    """Called from the parent (cases()): runs the builder in a subprocess with the right interpreter/env."""
    k = (tier, seed)
    if k not in _cache:
        root = os.path.dirname(os.path.dirname(os.path.dirname(os.path.abspath(__file__))))
        env = dict(os.environ, PYTHONPATH=root, PYTHONHASHSEED="0", PYTHONDONTWRITEBYTECODE="1")
        p = subprocess.run([sys.executable, "-m", "vf.props.corpus", tier, str(seed)], capture_output=True, text=True, cwd=root, env=env, timeout=600)
        if p.returncode != 0:
            raise RuntimeError("corpus builder failed: %s" % p.stderr[-2000:])
        _cache[k] = json.loads(p.stdout)
    return _cache[k]


if __name__ == "__main__":
    json.dump(build(sys.argv[1], sys.argv[2]), sys.stdout)
