"""C01 — content round trip for every codec chain (history + model; three read-back paths)."""
import io
import os

from vf.core import pz
from vf.gen import basic as G
from vf.mon import contracts
from vf.props import common as K
from vf.ref7z import reader as R

LEVEL = "exploration"
CASE_TIMEOUT = 300
CPU_BUDGET = 120
REQUIRED_OBS = ["sessions_round_tripped", "contract:SevenZipCompressor.compress", "contract:Worker.decompress"]
RULE = ("write session [(name,bytes)] under (chain, password, header mode, target kind, entry point, I/O block size, "
        "extraction chunk limit) -> fresh read session; read back three ways (extractall(factory), extractall(path), "
        "independent reference reader). Cell = (compressor, front filter, AES, header mode, target, largest-length class, "
        "block class, chunk class); a case is non-trivial when py7zr accepted the chain and at least one member was written.")
ASSUMPTIONS = [
    "ref7z reader is correct (self-checked against third-party fixtures)",
    "small block/chunk values are injected by rebinding get_default_blocksize/get_memory_limit where py7zr looks them up",
    "names extracted to disk are restricted to what the file system can hold (<=255 bytes per component, prefix-free)",
]

HEADERS = ["encoded", "raw", "encrypted_ctor", "encrypted_setter"]
TARGETS = ["path", "bytesio", "fileobj", "mv"]
ENTRIES = ["writestr", "writef_bytesio", "writef_buffered", "mixed"]
BLOCKS = [None, None, 32768, 4096, 100, 17, 16]
CHUNKS = [None, None, 100000, 1000, 16, 7, 1]
VOLUMES = [64, 100, 4096, 1 << 20]


def cases(rng, tier):
    n = 420 if tier == "quick" else 9000
    chains = G.all_chains(rng, fast=(tier == "quick"))
    out = []
    # every chain family at least once, with boundary-length members
    for ch in chains:
        pw = rng.choice(G.PASSWORDS) if any(c["f"] == "AES" for c in ch) else None
        mem = G.member_list(rng, n=rng.choice([1, 2, 3]), max_len=40000)
        out.append(dict(members=mem, chain=ch, password=pw, header=rng.choice(HEADERS if pw is not None else HEADERS[:2]), target=rng.choice(TARGETS[:3]),
                        entry=rng.choice(ENTRIES), block=rng.choice(BLOCKS), chunk=rng.choice(CHUNKS), volume=None))
    while len(out) < n:
        ch = G.chain(rng, fast=(tier == "quick" or rng.random() < 0.8))
        aes = any(c["f"] == "AES" for c in ch)
        header = rng.choice(HEADERS)
        pw = None
        if aes or header.startswith("encrypted") or rng.random() < 0.1:
            pw = rng.choice(G.PASSWORDS)
        if header.startswith("encrypted") and pw is None:
            pw = "secret"
        big = rng.random() < (0.02 if tier == "quick" else 0.04)
        mem = G.member_list(rng, max_len=70000, allow_big=big, n=(rng.choice([1, 2]) if big else None))
        target = rng.choice(TARGETS)
        block = rng.choice(BLOCKS)
        chunk = rng.choice(CHUNKS)
        total = sum(m["content"]["len"] for m in mem)
        if block and block < 200 and total > 150000:
            block = 4096  # tiny blocks over megabytes only cost time
        if chunk and chunk < 100 and total > 150000:
            chunk = 1000
        volume = rng.choice(VOLUMES) if target == "mv" else None
        if volume and total // volume > 5000:
            # volume files are numbered .0001 .. .9999: an archive of more volumes than that cannot be put together
            # again by the volume reader (nor by this check's own concatenation)
            volume = 4096
        out.append(dict(members=mem, chain=ch, password=pw, header=header, target=target, entry=rng.choice(ENTRIES),
                        block=block, chunk=chunk, volume=volume))
    # I/O blocks of 1..4 bytes (a first read shorter than what a decoder needs to start), every chain family once;
    # and volume sizes that put a volume boundary at each of the first bytes of the second session's folder
    small = [c for c in chains if len(c) <= 2 and not any(x["f"] == "AES" for x in c)]
    for i, ch in enumerate(small if tier == "thorough" else small[:: max(1, len(small) // 12)]):
        out.append(dict(members=[{"name": "s%d" % i, "content": G.content_recipe(rng, length=300)}], chain=ch, password=None, header="encoded", target="bytesio", entry="writestr",
                        block=1 + i % 4, chunk=None, volume=None))
    # two or three small members of machine-code-like bytes behind a branch filter in front of each non-native codec, default block:
    # a codec that gives the last bytes in a call of their own (PPMd) puts a piece boundary into the filter's last four bytes (fourth hunt)
    tex = {"X86": "x86dense", "ARM": "arm", "ARMTHUMB": "armt", "POWERPC": "ppc", "SPARC": "sparc"}
    for i in range(60 if tier == "quick" else 1500):
        b_ = rng.choice(["X86", "X86", "X86"] + sorted(tex))
        comp = rng.choice([{"f": "PPMD", "order": 6, "mem": 24}, {"f": "PPMD", "order": 6, "mem": 24}, {"f": "ZSTD", "level": 1}, {"f": "DEFLATE"}, {"f": "BZIP2"}, {"f": "COPY"}])
        mem = [{"name": "m%d" % j, "content": {"len": rng.randint(1, 70), "tex": tex[b_], "seed": rng.getrandbits(32)}} for j in range(rng.choice([2, 2, 3]))]
        out.append(dict(members=mem, chain=[{"f": b_}, comp], password=None, header="encoded", target="bytesio", entry="writestr", block=None, chunk=None, volume=None))
    # whatever chain the writer accepts has to come back (sixth hunt: the writer accepted chains its reader cannot set up):
    # random chains of one to three coders over the whole alphabet, refused ones counted as such
    alpha = [{"f": "DELTA", "dist": 2}, {"f": "X86"}, {"f": "ARM"}, {"f": "POWERPC"}, {"f": "IA64"}, {"f": "COPY"}, {"f": "LZMA", "preset": 1}, {"f": "LZMA2", "preset": 1},
             {"f": "ZSTD", "level": 1}, {"f": "BZIP2"}, {"f": "DEFLATE"}, {"f": "PPMD", "order": 6, "mem": 24}, {"f": "BROTLI", "level": 1}]
    for i in range(120 if tier == "quick" else 2500):
        ch = [dict(rng.choice(alpha)) for _ in range(rng.choice([1, 2, 2, 3, 3]))]
        aes = rng.random() < 0.3
        if aes:
            ch.append({"f": "AES"})
        mem = [{"name": "m%d" % j, "content": G.content_recipe(rng, max_len=3000)} for j in range(2)]
        out.append(dict(members=mem, chain=ch, password=("pw" if aes else None), header="encoded", target="bytesio", entry="writestr", block=None, chunk=None, volume=None))
    if tier == "thorough":
        # every chain x every boundary length once
        for ch in chains:
            for ln in G.BOUNDARY_LENGTHS + G.BIG_LENGTHS[:2]:
                pw = "secret" if any(c["f"] == "AES" for c in ch) else None
                mem = [{"name": "m%d" % ln, "content": G.content_recipe(rng, length=ln)}]
                block, chunk = rng.choice(BLOCKS), rng.choice(CHUNKS)
                if ln > 150000:  # tiny blocks/chunks over a megabyte only cost time (minutes per case)
                    block = None if not block or block < 200 else block
                    chunk = None if not chunk or chunk < 100 else chunk
                out.append(dict(members=mem, chain=ch, password=pw, header="encoded", target="bytesio", entry="writestr",
                                block=block, chunk=chunk, volume=None))
    return out


def worker_init():
    contracts.install()


def _cell(case, accepted):
    ch = case["chain"]
    comp = [c["f"] for c in ch if c["f"] in G.COMPRESSORS]
    front = [c["f"] for c in ch if c["f"] in G.FRONT_NATIVE]
    lens = [m["content"]["len"] for m in case["members"]]
    b, c = case["block"], case["chunk"]
    return "|".join([
        comp[0] if comp else "-", front[0] if front else "-", "aes" if any(x["f"] == "AES" for x in ch) else "-",
        case["header"], case["target"], K.len_class(max(lens)) if lens else "none",
        "blk:" + ("def" if not b else ("tiny" if b < 200 else "small")), "chk:" + ("def" if not c else ("tiny" if c < 100 else "small")),
    ])


def run_case(case):
    contracts.reset()
    members = K.mat_members(case["members"])
    names = [n for n, _ in members]
    viol = []
    obs = {}
    with pz.scratch("vf-c01-") as d, K.io_knobs(case["block"], case["chunk"]):
        try:
            # exclusive creation is a way of creating, too (mode 'x': the archive must not exist yet)
            xmode = case["target"] == "path" and case.get("seed_x", len(case["members"])) % 3 == 0
            path, obj, data = K.write_session(d, members, case["chain"], case["password"], case["header"], case["target"], case["entry"], case["volume"], mode=("x" if xmode else "w"))
            obs["sessions_mode_x"] = obs.get("sessions_mode_x", 0) + (1 if xmode else 0)
        except K.Rejected as e:
            return K.result("held", cell="rejected|" + G.chain_label(case["chain"]), nontrivial=False, obs={"rejected_by_writer": 1},
                            sample={"chain": G.chain_label(case["chain"]), "rejected": str(e)[:80]})
        except Exception as e:
            return K.result("violated", key="write-raises/%s/%s" % (type(e).__name__, case["target"]),
                            what="write session raised %s (chain %s, header %s, target %s)" % (pz.exc_sig(e), G.chain_label(case["chain"]), case["header"], case["target"]),
                            cell=_cell(case, True), detail={"trace": _tb()})
        want = dict(members)
        # 1. py7zr through the same kind of target, memory extraction
        def check(tag, got_names, got):
            if got_names != names:
                viol.append({"key": "names-differ/" + tag, "what": "%s lists %r, written %r" % (tag, got_names[:6], names[:6])})
                return
            for n in names:
                if n not in got:
                    viol.append({"key": "member-missing/" + tag, "what": "%s delivered nothing for %r" % (tag, n)})
                    return
                if got[n] != want[n]:
                    viol.append({"key": "bytes-differ/" + tag, "what": "%s delivered %d bytes for %r (crc %08x), written %d (crc %08x)" % (
                        tag, len(got[n]), n, pz.crc(got[n]), len(want[n]), pz.crc(want[n]))})
                    return
            extra = set(got) - set(names)
            if extra:
                viol.append({"key": "extra-output/" + tag, "what": "%s delivered unlisted products %r" % (tag, sorted(extra)[:4])})

        readers = []
        if case["target"] == "mv":
            readers.append(("mv", None))
            readers.append(("concat", data))
        elif case["target"] == "bytesio":
            readers.append(("bytesio", data))
            # the caller's own stream as the write session left it: not rewound (sixth hunt), and standing somewhere in the middle
            readers.append(("bytesio-as-left", ("as-left", obj)))
        else:
            readers.append((case["target"], None))
        for tag, blob in readers:
            try:
                if isinstance(blob, tuple):
                    if blob[1] is None or not hasattr(blob[1], "getvalue") or blob[1].closed:
                        continue
                    src, closer = blob[1], (lambda: None)
                elif blob is not None:
                    src, closer = io.BytesIO(blob), (lambda: None)
                else:
                    src, closer = K.open_target(case["target"], path, "r")
                try:
                    gn, got = pz.read_mem(src, case["password"])
                finally:
                    closer()
                check("read-" + tag, gn, got)
            except Exception as e:
                viol.append({"key": "read-raises/%s/%s" % (tag, type(e).__name__), "what": "reading back through %s raised %s" % (tag, pz.exc_sig(e)), "trace": _tb()})
        # 2. extraction to disk
        if K.fs_safe_names(names) and case["target"] != "mv":
            import py7zr

            out = os.path.join(d, "out")
            try:
                src, closer = (io.BytesIO(data), (lambda: None)) if case["target"] == "bytesio" else K.open_target(case["target"], path, "r")
                try:
                    with py7zr.SevenZipFile(src, "r", password=case["password"]) as z:
                        z.extractall(out)
                finally:
                    closer()
                got = {}
                for n in names:
                    p = os.path.join(out, n)
                    if os.path.isfile(p):
                        with open(p, "rb") as f:
                            got[n] = f.read()
                check("disk", names, got)
                obs["disk_extractions"] = 1
            except Exception as e:
                viol.append({"key": "read-raises/disk/%s" % type(e).__name__, "what": "extractall(path) raised %s" % pz.exc_sig(e), "trace": _tb()})
        # 3. independent reader on the raw bytes
        try:
            arc = R.parse(data, case["password"])
            rn = arc.names()
            rgot = {m.name: m.data for m in arc.members if m.has_stream or m.is_empty_file}
            check("ref", rn, rgot)
            obs["ref_reads"] = 1
        except Exception as e:
            viol.append({"key": "ref-raises/%s" % type(e).__name__, "what": "reference reader rejects the archive: %s" % pz.exc_sig(e)})
    cnt, cv = contracts.snapshot()
    for k, v in cnt.items():
        obs["contract:" + k] = v
    for name, msg in cv:
        viol.append({"key": "contract/" + name, "what": msg})
    obs["sessions_round_tripped"] = 1
    obs["members_written"] = len(members)
    obs["bytes_written"] = sum(len(b) for _, b in members)
    cell = _cell(case, True)
    sample = {"chain": G.chain_label(case["chain"]), "header": case["header"], "target": case["target"], "entry": case["entry"],
              "block": case["block"], "chunk": case["chunk"], "members": [(n[:30], len(b)) for n, b in members][:4], "archive_bytes": len(data)}
    if viol and any(c["f"] == "PPMD" for c in case["chain"]) and K.pyppmd_faulty(case["chain"], [b for _, b in members], case["block"]):
        # the PPMd library alone cannot round-trip this stream: one mechanism, whatever the symptom
        viol = [{"key": "codec-library/pyppmd-roundtrip", "what": "pyppmd %s cannot round-trip this input by itself (symptom here: %s)" % (
            [c for c in case["chain"] if c["f"] == "PPMD"], viol[0]["what"][:150])}]
    if viol and any(c["f"] == "DEFLATE64" for c in case["chain"]) and K.inflate64_faulty(case["chain"], [b for _, b in members if b]):
        viol = [{"key": "codec-library/inflate64-roundtrip", "what": "inflate64 alone (Deflater fed these pieces, then Inflater) does not give the input back (symptom here: %s)" % viol[0]["what"][:150]}]
    if viol and case["chunk"] and case["chunk"] <= 8 and K.pybcj_small_feed_faulty(case["chain"], [b for _, b in members], case["chunk"]):
        viol = [{"key": "codec-library/pybcj-small-feeds", "what": "pybcj %s decoder alone mis-decodes when fed %d-byte pieces (symptom here: %s)" % (
            [c["f"] for c in case["chain"] if c["f"] in G.BCJ], case["chunk"], viol[0]["what"][:150])}]
    if viol:
        # one entry per distinct key
        seen = {}
        for v in viol:
            seen.setdefault(v["key"], v)
        return K.result("violated", violations=list(seen.values()), cell=cell, obs=obs, sample=sample)
    return K.result("held", cell=cell, nontrivial=bool(members), obs=obs, sample=sample)


def on_abnormal(case, kind, info):
    if kind in ("cpu-budget", "deadlock"):
        return K.result("violated", key="hang/" + kind, what="round trip did not finish (%s): chain %s target %s block %s chunk %s" % (
            kind, G.chain_label(case["chain"]), case["target"], case["block"], case["chunk"]))
    if kind.startswith("crash:") and "KILL" not in kind:
        if any(c["f"] == "PPMD" for c in case["chain"]):
            members = [b for _, b in K.mat_members(case["members"])]
            if K.pyppmd_decoder_crashes_alone(case["chain"], members, case["block"], case["chunk"]):
                return K.result("violated", key="codec-library/pyppmd-decoder-crash",
                                what="pyppmd's decoder alone, in a fresh process, dies from a signal on the stream its own encoder makes of these members (here: %s)" % kind)
        return K.result("violated", key="interpreter-died/" + kind, what="worker died with %s" % kind)
    return None


def _tb():
    import traceback

    return traceback.format_exc()[-1500:]
