"""C03 — extraction never writes outside the destination directory (invariant at a hook:
audit-event jail + before/after snapshot of the surroundings)."""
import io
import itertools
import os
import random
import shutil
import stat

from vf.core import pz
from vf.mon import jail
from vf.props import common as K
from vf.ref7z import writer as W

LEVEL = "exploration"
CASE_TIMEOUT = 900
CPU_BUDGET = 800
REQUIRED_OBS = ["extractions", "audit_events_inside", "snapshots_compared"]
RULE = ("hostile archives from the reference writer: entries (name x kind) with names over {a, b, a/b, ../x, a/../../x, ./a, a//b, absolute outside, "
        "absolute inside, ../<dest name>/a, ../<dest name>, .//<absolute>, .., ., ...} and kinds file / directory / symlink with targets over {., .., ../.., a, b, a/.., absolute inside, "
        "absolute outside, /, a/../x (through a name a later entry turns into a link) ...}; ALL archives of 1 and 2 entries over the full alphabet, all 3-entry archives over a reduced "
        "alphabet and over the respelled alphabet (names a, ./a, b, ./b: a later entry under another spelling replaces the earlier one on disk), random 4-5 entry "
        "archives; ~45-entry chains whose physical directory lies beyond PATH_MAX while every stored name is short (links entered through a short path, then a link climbing out); destination absolute / relative / None(cwd), empty or pre-populated; opened by path or stream; single folder or one folder per "
        "entry; link chains with one folder per entry on the parallel path under a controlled scheduler (workers parked at mkdir/open/symlink, released in random "
        "order); two-call histories extract(first two entries), reset(), extract(third entry) (1-entry archives: every destination form x pre-populated or not; larger families: configurations rotate over batches of 250 in the quick tier, "
        "2-entry and respelled families run under every destination form in the thorough tier). Oracle: (1) snapshot (type, mode, size, mtime, link text, SHA-256) of the scratch area outside the destination is unchanged; "
        "(2) no audit event of a mutating call (open-for-write, mkdir, symlink, link, rename, remove, rmdir, chmod, chown, utime, truncate, shutil.*) "
        "resolves outside realpath(destination). Raising is always allowed. Cell = shape signature of the archive (kinds + name/target classes) + destination mode.")
EXHAUSTIVE = {"quick": "all archives of <= 2 entries over the full shape alphabet (24 names x (file, dir, 13 link targets)); all 3-entry archives over the reduced alphabet and over the respelled alphabet (4 names x (file, dir, 8 link targets)); all 4-entry link chains (3 links over {a,b,a/b} x {., .., a/.., b/..} + one entry created through them)",
              "thorough": "as quick + all 3-entry archives over a medium alphabet, all orders"}
ASSUMPTIONS = ["a link created inside the destination whose text points outside is not by itself a violation; it becomes one when a later operation goes through it",
               "every escape the generator can express lands inside the scratch root (destination nested 6 levels deep, absolute decoys inside the scratch root)"]

NAMES = ["a", "b", "a/b", "a/b/c", "b/a", "../x", "../../x", "a/../../x", "a/../b", "./a", "a/./b", "a//b", "{OUT}/f", "{D}/z", "../{DN}/a", "../{DN}x/a", "..", ".", "a/..",
         # '.' + absolute path ('.//dev/shm/...'): relative by its first component, absolute once a './' marker is stripped
         "./{OUT}/f", "./{OUT}/newdir", "a/..{OUT}/f", "../{DN}", "{D}/../x"]
# other spellings of the same two names: a later entry under another spelling replaces the earlier one on disk
# (same spelling twice is renamed name_0 by py7zr); targets that run through a name another entry may turn into a link
NAMES_S = ["a", "./a", "b", "./b"]
TARGETS_S = [".", "..", "a/..", "b/..", "a", "b", "a/../x", "b/../decoydir/inner.txt"]
TARGETS = [".", "..", "../..", "a", "b", "a/..", "b/..", "a/b", "{D}/a", "{OUT}", "{OUT}/f", "../x", "/"]
NAMES_R = ["a", "b", "a/b", "b/a", "../x", "{OUT}/f"]
TARGETS_R = [".", "..", "a", "{OUT}"]
NAMES_M = ["a", "b", "a/b", "b/a", "../x", "a/../../x", "{OUT}/f", ".."]
TARGETS_M = [".", "..", "../..", "a", "b", "a/..", "{OUT}", "{D}/a"]


def shapes(names, targets):
    out = []
    for n in names:
        out.append([n, "F", None])
        out.append([n, "D", None])
        for t in targets:
            out.append([n, "L", t])
    return out


def cases(rng, tier):
    out = []
    full = shapes(NAMES, TARGETS)
    batch = 250
    modes = ["abs", "rel", "cwd"]

    def add(arcs, label, prepop=None, product=False):
        """product=False: every batch of 250 archives runs under one configuration (destination form, pre-populated or not,
        opened by path or stream, one folder or one per entry), configurations rotating over the batches.
        product=True: every batch runs under every destination form x pre-populated or not (open/perfile still rotate)."""
        for i in range(0, len(arcs), batch):
            b = i // batch
            combos = [(modes[b % 3], bool(b & 1) if prepop is None else prepop)]
            if product:
                combos = [(m, pp) for m in modes for pp in ((False, True) if prepop is None else (prepop,))]
            for k, (m, pp) in enumerate(combos):
                out.append({"archives": arcs[i : i + batch], "dest": m, "prepop": pp, "open": "path" if (b + k) % 4 == 0 else "stream", "perfile": bool((b + k) % 5 == 0), "label": label})

    add([[s] for s in full], "1-entry", product=True)
    add([[a, b] for a in full for b in full], "2-entry", product=(tier == "thorough"))
    red = shapes(NAMES_R, TARGETS_R)
    add([list(t) for t in itertools.product(red, repeat=3)], "3-entry-reduced")
    # link chains: three link entries followed by an entry created through them (a dangling link may be
    # given a new meaning by a later link: 'b -> a/..' then 'a -> .')
    lk = [[n, "L", t] for n in ("a", "b", "a/b") for t in (".", "..", "a/..", "b/..")]
    last = [[n, k, t] for n in ("a/b/c", "b/c", "a/c") for (k, t) in (("F", None), ("L", "{D}/a"), ("L", ".."))]
    add([[x, y, z, w] for x in lk for y in lk for z in lk for w in last], "4-entry-link-chains")
    sp = shapes(NAMES_S, TARGETS_S)
    # never pre-populated: the pre-populated destination holds 'a' (directory) and 'b' (file), which are this family's own names
    add([list(t) for t in itertools.product(sp, repeat=3)], "3-entry-respelled", prepop=False, product=(tier == "thorough"))
    if tier == "thorough":
        med = shapes(NAMES_M, TARGETS_M)
        add([list(t) for t in itertools.product(med, repeat=3)], "3-entry-medium")
    # parallel path under a controlled scheduler: one folder per entry, opened by name, workers parked at their mkdir/open/symlink
    # calls and released in a random order (a check-then-act race between folder workers was found by a bug hunt: 0.3-1 % of free runs)
    race = [[x, y, w] for x in lk for y in lk for w in [["b/b", "F", None], ["a/b", "F", None], ["a/c", "F", None], ["b/c/d", "F", None]] if x[0] != y[0]]
    rng.shuffle(race)
    race = race[: (60 if tier == "quick" else 400)]
    for i in range(0, len(race), 10):
        out.append({"kind": "race", "archives": race[i : i + 10], "schedules": 6 if tier == "quick" else 10, "seed": rng.getrandbits(32), "label": "parallel-race", "dest": "abs", "prepop": False, "open": "path", "perfile": True})
    # histories: links made by one extract() call are on disk when the next call of the same session runs
    hist = [[x, y, w] for x in lk for y in lk for w in [["b/newdir", "D", None], ["a/newdir", "D", None], ["b/f", "F", None], ["a/b/newdir", "D", None]] if x[0] != y[0]]
    rng.shuffle(hist)
    hist = hist[: (150 if tier == "quick" else 1500)]
    for i in range(0, len(hist), 50):
        out.append({"kind": "history", "archives": hist[i : i + 50], "label": "extract-reset-extract", "dest": modes[(i // 50) % 3], "prepop": False, "open": "stream" if (i // 50) % 2 else "path", "perfile": False})
    # beyond PATH_MAX: a physical directory deeper than 4096 bytes, reached through a short path of links; lstat() on the
    # long spelling fails there while the kernel, entering through the short one, follows every link (found by a bug hunt)
    longs = [_long_chain(L, last) for L in (250, 120) for last in (("F", None), ("D", None), ("L", "{OUT}"))]
    longs += [_long_lookup(last, ups) for last in (("F", None), ("D", None)) for ups in (1, 2)]
    for i, m in enumerate(modes):
        out.append({"archives": longs, "dest": m, "prepop": False, "open": "path" if i == 1 else "stream", "perfile": False, "label": "beyond-PATH_MAX", "sig": "long-chain"})
    # the destination's own entry (fifth hunt): an empty file named like the destination puts its mode and time onto it
    own = [[[n, "E", None]] for n in (".", "./", "a/..", "../{DN}", "{D}", "a/../.")] + [[["a", "D", None], [n, "E", None]] for n in (".", "a/..")]
    for m in modes:
        out.append({"archives": own, "dest": m, "prepop": False, "open": "stream", "perfile": False, "label": "destination-entry", "watch_dest": True})
    nrand = 2000 if tier == "quick" else 100000
    rnd = []
    for _ in range(nrand):
        k = rng.choice([4, 5])
        rnd.append([rng.choice(full) for _ in range(k)])
    add(rnd, "random-4-5")
    return out


def _long_chain(L, last):
    """dir D1 (L characters); link L1 -> D1; for i = 2..n: file L(i-1)/Di/f, link Li -> L(i-1)/Di (every name the library
    sees stays short, the physical directory P = dest/D1/../Dn is longer than PATH_MAX); a directory k/../k (n levels); link
    k/../k/L -> ../(n times)Ln (= P, inside); link k/../k/L/b -> '..' (inside); link k/../k/L/x -> b/../(n times) (lexically
    under k/, physically the parent of the destination); entries created through x."""
    n = 4096 // (L + 1) + 2
    comp = [("%02d" % i) + chr(97 + i % 26) * (L - 2) for i in range(n + 1)]
    arc = [[comp[1], "D", None], ["L1", "L", comp[1]]]
    for i in range(2, n + 1):
        arc.append(["L%d/%s/f" % (i - 1, comp[i]), "F", None])
        arc.append(["L%d" % i, "L", "L%d/%s" % (i - 1, comp[i])])
    k = "/".join(["k"] * n)
    arc.append([k, "D", None])
    arc.append([k + "/L", "L", "../" * n + "L%d" % n])
    arc.append([k + "/L/b", "L", ".."])
    arc.append([k + "/L/x", "L", "b/" + "/".join([".."] * n)])
    arc.append([k + "/L/x/x", last[0], last[1]])
    arc.append([k + "/L/x/newname", last[0], last[1]])
    return arc


def _long_lookup(last, ups):
    """Five members of clean names (fifth hunt): a directory 16 levels of 240 characters deep (its path stays below PATH_MAX);
    link k -> that directory; link k/<255 characters> -> '../' x 16 (the destination itself: inside); link esc ->
    k/<255 characters>/.. ; an entry below esc. The lookup of the 255-character name through the long spelling fails with
    ENAMETOOLONG, through k it does not."""
    deep = "/".join(["D" * 240] * 16)
    lname = "L" * 255
    arc = [[deep, "D", None], ["k", "L", deep], ["k/" + lname, "L", "/".join([".."] * 16)], ["esc", "L", "k/" + lname + "/.." * ups],
           ["esc/x", last[0], last[1]], ["esc/newname", last[0], last[1]]]
    return arc


def worker_init():
    import sys

    from vf.props import c13

    jail.install()
    sys.addaudithook(c13._audit)  # scheduler gates at open/mkdir/symlink (family 'race')
    # pre-import everything extraction may import lazily, so that no unrelated write event exists
    import encodings.utf_16_le  # noqa
    import psutil  # noqa
    import resource  # noqa

    import py7zr  # noqa
    from py7zr import properties

    properties.get_memory_limit()


def _members(arc, D, OUT):
    DN = os.path.basename(D)
    mem = []
    for i, (name, kind, tgt) in enumerate(arc):
        name = name.replace("{OUT}", OUT).replace("{D}", D).replace("{DN}", DN)
        m = {"name": name, "mtime": 132000000000000000 + i}
        if kind == "F":
            m.update(kind="file", data=b"payload-%d" % i, attributes=0x20 | 0x8000 | (0o100644 << 16))
        elif kind == "E":
            # an empty file carrying a mode and a time of its own
            m.update(kind="emptyfile", attributes=0x20 | 0x8000 | (0o100700 << 16), mtime=125000000000000000)
        elif kind == "D":
            m.update(kind="dir", attributes=0x10 | 0x8000 | (0o040755 << 16))
        else:
            t = tgt.replace("{OUT}", OUT).replace("{D}", D)
            m.update(kind="symlink", data=t.encode(), attributes=0x20 | 0x400 | 0x8000 | (0o120777 << 16))
        mem.append(m)
    return mem


def _sig(arc):
    def ncls(n):
        if n.startswith("{OUT}"):
            return "abs-out"
        if n.startswith("{D}"):
            return "abs-in"
        if "{DN}" in n:
            return "via-destname"
        if ".." in n.split("/"):
            return "dotdot"
        return "plain"

    def tcls(t):
        if t.startswith("{OUT}") or t == "/":
            return "abs-out"
        if t.startswith("{D}"):
            return "abs-in"
        if t == ".":
            return "dot"
        if ".." in t.split("/"):
            return "dotdot"
        return "plain"

    return ",".join("%s:%s%s" % (k, ncls(n), ("->" + tcls(t)) if k == "L" else "") for n, k, t in arc)


def _mkscratch(root):
    shutil.rmtree(root, ignore_errors=True)
    p = root
    os.makedirs(p)
    for i in range(6):
        with open(os.path.join(p, "decoy.txt"), "wb") as f:
            f.write(b"decoy-%d" % i)
        os.mkdir(os.path.join(p, "decoydir"))
        with open(os.path.join(p, "decoydir", "inner.txt"), "wb") as f:
            f.write(b"inner")
        for nm in ("x", "a", "b", "f", "z"):  # names the hostile entries aim at, as regular files with known content
            with open(os.path.join(p, nm), "wb") as f:
                f.write(b"bystander-" + nm.encode())
        p = os.path.join(p, "j%d" % i)
        os.mkdir(p)
    out = os.path.join(root, "outside")
    os.mkdir(out)
    with open(os.path.join(out, "f"), "wb") as f:
        f.write(b"outside-f")
    os.chmod(os.path.join(out, "f"), 0o600)
    return p, out  # parent of D, OUT


def run_case(case):
    import py7zr

    viol = []
    obs = {"extractions": 0, "audit_events_inside": 0, "snapshots_compared": 0, "raised": 0, "completed": 0}
    cells = set()
    cwd0 = os.getcwd()
    with pz.scratch("vf-c03-") as top:
        root = os.path.join(top, "r")
        arcdir = os.path.join(top, "arcs")
        os.mkdir(arcdir)
        parent, OUT = _mkscratch(root)
        D = os.path.join(parent, "dest")
        before = None
        todo = [(ai, arc, k) for ai, arc in enumerate(case["archives"]) for k in range(case.get("schedules", 1))]
        for ai, arc, rep_i in todo:
            shutil.rmtree(D, ignore_errors=True)
            if before is None:
                before = jail.snapshot(root, D)
            mem = _members(arc, D, OUT)
            lay = {"header": "raw", "folders": ([{"n": 1, "chain": [{"m": "COPY"}], "crc": "sub"} for m in mem if m["kind"] not in ("dir", "emptyfile")] if case["perfile"]
                                               else [{"n": sum(1 for m in mem if m["kind"] not in ("dir", "emptyfile")), "chain": [{"m": "COPY"}], "crc": "sub"}])}
            if not lay["folders"] or lay["folders"][0]["n"] == 0:
                lay["folders"] = []
            data = W.build(mem, lay)
            if case["prepop"]:
                os.makedirs(os.path.join(D, "a"))
                with open(os.path.join(D, "b"), "wb") as f:
                    f.write(b"old-b")
                with open(os.path.join(D, "a", "keep.txt"), "wb") as f:
                    f.write(b"keep")
            if case["open"] == "path":
                ap = os.path.join(arcdir, "h%d_%d.7z" % (ai, rep_i))
                with open(ap, "wb") as f:
                    f.write(data)
                src = ap
            else:
                src = io.BytesIO(data)
            try:
                if case["dest"] == "abs":
                    dest = D
                elif case["dest"] == "rel":
                    os.chdir(parent)
                    dest = "dest"
                else:
                    os.makedirs(D, exist_ok=True)
                    os.chdir(D)
                    dest = None
                d_before = (stat.S_IMODE(os.stat(D).st_mode), os.stat(D).st_mtime_ns) if (case.get("watch_dest") and os.path.isdir(D)) else None
                jail.start(D)
                status = "completed"
                sch = None
                try:
                    if case.get("kind") == "race":
                        from vf.mon import sched as S
                        from vf.props import c13

                        sch = S.Sched(rng=random.Random(case["seed"] * 1000 + ai * 16 + rep_i), quiesce_s=0.02)
                        c13._disk_gate["root"] = root
                        S.install(sch)
                    with py7zr.SevenZipFile(src, "r") as z:
                        if case.get("kind") == "history":
                            first = [m["name"] for m in mem[:2]]
                            z.extract(dest, targets=first) if dest is not None else z.extract(targets=first)
                            z.reset()
                            z.extract(dest, targets=[mem[2]["name"]]) if dest is not None else z.extract(targets=[mem[2]["name"]])
                        else:
                            z.extractall(dest) if dest is not None else z.extractall()
                except Exception as e:
                    status = "raised"
                finally:
                    if sch is not None:
                        S.uninstall()
                        c13._disk_gate["root"] = None
                        obs["controlled_schedules"] = obs.get("controlled_schedules", 0) + 1
                        obs["worker_threads_scheduled"] = obs.get("worker_threads_scheduled", 0) + sch.workers_seen
                    rep = jail.stop()
                    os.chdir(cwd0)
            finally:
                os.chdir(cwd0)
            obs["extractions"] += 1
            obs[status] += 1
            obs["audit_events_inside"] += rep["inside"]
            # primary oracle: the snapshot. Stat-level comparison always; content hashes whenever the audit
            # trail saw any attempt outside or the stat level differs.
            after = jail.snapshot(root, D, hashing=False)
            obs["snapshots_compared"] += 1
            if rep["outside"] or not jail.same_stat(before, after, D):
                after = jail.snapshot(root, D)
                obs["full_hash_snapshots"] = obs.get("full_hash_snapshots", 0) + 1
                df = jail.diff(before, after, D)
            else:
                df = []
            if rep["outside"] and not df:
                obs["attempts_outside_without_effect"] = obs.get("attempts_outside_without_effect", 0) + 1
                rep["outside"] = jail.corroborated(rep["outside"])
            if d_before is not None and os.path.isdir(D):
                obs["destination_entries_watched"] = obs.get("destination_entries_watched", 0) + 1
                d_after = (stat.S_IMODE(os.stat(D).st_mode), os.stat(D).st_mtime_ns)
                if d_after[0] != d_before[0] or d_after[1] == 855526400000000000:
                    viol.append({"key": "escape/destination-entry-remoded", "what": "archive %r into %s destination (%s): the destination directory itself went from mode %o to %o, mtime %d -> %d" % (
                        arc, case["dest"], status, d_before[0], d_after[0], d_before[1], d_after[1]), "archive": arc})
            sig = case.get("sig") or _sig(arc)
            cells.add("%s|%s|%s|%s" % (case["label"], sig if len(arc) <= 2 else sig[:60], case["dest"], status))
            if df or rep["outside"]:
                what = []
                if df:
                    what.append("outside the destination: " + "; ".join("%s %s (%s)" % (w, os.path.relpath(p, root), t) for w, p, t in df[:3]))
                if rep["outside"]:
                    what.append("audit: " + "; ".join("%s(%s) -> %s" % (e["event"], e["path"][-40:], os.path.relpath(e["resolves_to"], root) if e["resolves_to"].startswith(root) else e["resolves_to"]) for e in rep["outside"][:3]))
                first = (df[0][0] if df else rep["outside"][0]["event"])
                viol.append({"key": "escape/%s/%s" % (first, sig), "what": "archive %s into %s destination (%s): %s" % (
                    repr(arc) if len(repr(arc)) < 600 else "of %d entries (%s: %s)" % (len(arc), case["label"], _long_chain.__doc__.split(";")[0][:120]), case["dest"], status, " | ".join(what)),
                             "archive": arc if len(repr(arc)) < 600 else case["label"]})
                # surroundings are dirty now: rebuild
                parent, OUT = _mkscratch(root)
                D = os.path.join(parent, "dest")
                before = None
            if os.path.isdir(D):
                for dp, dns, fns in os.walk(D):
                    try:
                        os.chmod(dp, 0o700)
                    except OSError:
                        pass
    sample = {"label": case["label"], "dest": case["dest"], "prepopulated": case["prepop"], "open": case["open"], "first_archives": [a for a in case["archives"][:2] if len(repr(a)) < 600]}
    if viol:
        seen = {}
        for v in viol:
            seen.setdefault(v["key"], v)
        return K.result("violated", violations=list(seen.values())[:40], cells=sorted(cells)[:400], obs=obs, sample=sample)
    return K.result("held", cells=sorted(cells)[:400], obs=obs, sample=sample)


def on_abnormal(case, kind, info):
    if kind in ("cpu-budget", "deadlock"):
        return K.result("inconclusive", key="hang/" + kind, what="extraction of a hostile archive batch did not finish (%s); termination is C05's property" % kind)
    return None
