"""Shared pieces of the property modules (executed inside workers)."""
import contextlib
import glob
import io
import os
import random

from vf.core import pz
from vf.gen import basic as G


class Rejected(Exception):
    """py7zr refused the configuration at construction time (not a case)."""


@contextlib.contextmanager
def io_knobs(block=None, chunk=None):
    """Drive py7zr's I/O block size and extraction chunk limit (real configurations: 32768 is
    what 32-bit builds get; get_memory_limit() returns any small positive number under a tight
    RLIMIT_DATA) by rebinding the two names where py7zr looks them up."""
    import py7zr.compressor as C
    import py7zr.py7zr as P

    saved = []
    try:
        if block:
            for mod in (C, P):
                saved.append((mod, "get_default_blocksize", mod.get_default_blocksize))
                mod.get_default_blocksize = lambda b=block: b
        if chunk:
            saved.append((P, "get_memory_limit", P.get_memory_limit))
            P.get_memory_limit = lambda c=chunk: c
        yield
    finally:
        for mod, name, val in saved:
            setattr(mod, name, val)


class PlainBuffered(io.BufferedIOBase):
    """A caller-supplied BufferedIOBase that is not a BytesIO (writef's third branch)."""

    def __init__(self, data):
        self._b = io.BytesIO(data)
        self.reads = 0

    def read(self, n=-1):
        self.reads += 1
        return self._b.read(n)

    def read1(self, n=-1):
        return self.read(n)

    def seek(self, o, w=0):
        return self._b.seek(o, w)

    def tell(self):
        return self._b.tell()

    def readable(self):
        return True

    def seekable(self):
        return True


def open_target(kind, path, mode, volume=None):
    """Returns (object to hand to SevenZipFile, closer)."""
    import multivolumefile

    if kind == "path":
        return path, (lambda: None)
    if kind == "bytesio":
        b = io.BytesIO()
        return b, (lambda: None)
    if kind == "fileobj":
        f = open(path, {"w": "w+b", "r": "rb", "a": "r+b"}[mode])
        return f, f.close
    if kind == "mv":
        mv = multivolumefile.MultiVolume(path, mode={"w": "wb", "r": "rb", "a": "ab"}[mode], volume=volume) if mode != "r" else multivolumefile.MultiVolume(path, mode="rb")
        return mv, mv.close
    raise ValueError(kind)


def archive_bytes(kind, path, obj):
    if kind == "bytesio":
        return obj.getvalue()
    if kind == "mv":
        parts = sorted(glob.glob(glob.escape(path) + ".[0-9][0-9][0-9][0-9]"))
        return b"".join(open(p, "rb").read() for p in parts)
    with open(path, "rb") as f:
        return f.read()


def write_session(d, members, chain=None, password=None, header="encoded", target="path", entry="writestr", volume=None, mode="w", path=None, obj=None):
    """One py7zr write/append session. members: [(name, bytes)]. Returns (path, obj, archive bytes)."""
    import py7zr
    from py7zr.exceptions import UnsupportedCompressionMethodError

    path = path or os.path.join(d, "t.7z")
    filters = G.resolve_chain(chain) if chain is not None else None
    if obj is None or target != "bytesio":
        obj, closer = open_target(target, path, mode, volume)
    else:
        closer = lambda: None  # noqa: E731
        obj.seek(0)
    try:
        try:
            z = py7zr.SevenZipFile(obj, mode, filters=filters, password=password, header_encryption=header.startswith("encrypted_ctor"))
        except UnsupportedCompressionMethodError as e:
            raise Rejected(str(e)[:200])
        try:
            if header == "raw":
                z.set_encoded_header_mode(False)
            elif header.startswith("encrypted_setter"):
                z.set_encrypted_header(True)
            if header.endswith("+unpacked"):
                # header encryption asked for, then the header asked to be stored unpacked: the first request stands
                z.set_encoded_header_mode(False)
            for i, (name, data) in enumerate(members):
                how = entry if entry != "mixed" else ("writestr", "writef_bytesio", "writef_buffered")[i % 3]
                if how == "writestr":
                    z.writestr(data, name)
                elif how == "writef_bytesio":
                    z.writef(io.BytesIO(data), name)
                else:
                    z.writef(PlainBuffered(data), name)
        except UnsupportedCompressionMethodError as e:
            # py7zr builds the coder chain lazily at the first write: still a refusal, not a failure
            try:
                z._fpclose()
            except Exception:
                pass
            raise Rejected(str(e)[:200])
        except BaseException:
            try:
                z.close()
            except Exception:
                pass
            raise
        z.close()
        if target == "fileobj":
            obj.flush()
        data = None
        if target == "bytesio":
            data = obj.getvalue()
    finally:
        if target != "bytesio":
            closer()
    if data is None:
        data = archive_bytes(target, path, obj)
    return path, obj, data


def mat_members(members):
    return [(m["name"], G.materialise(m["content"])) for m in members]


def len_class(n):
    if n == 0:
        return "0"
    if n < 16:
        return "<16"
    if n <= 48:
        return "aes-block"
    if n < 32000:
        return "small"
    if n < 70000:
        return "32k-64k"
    if n < (1 << 20) - 4096:
        return "mid"
    return ">=1MiB"


def fs_safe_names(names):
    for n in names:
        if len(n.encode("utf-8", "surrogatepass")) > 900:
            return False
        for c in n.split("/"):
            if len(c.encode("utf-8", "surrogatepass")) > 255:
                return False
    s = set(names)
    for n in names:
        parts = n.split("/")
        for i in range(1, len(parts)):
            if "/".join(parts[:i]) in s:
                return False
    return True


def result(verdict="held", key=None, what=None, **kw):
    r = {"verdict": verdict}
    if key:
        r["key"] = key
    if what:
        r["what"] = what
    r.update(kw)
    return r


def exc_class(e):
    return type(e).__name__


def ppmd_params(c):
    order = c.get("order", 8)
    mem = c.get("mem", 24)
    if isinstance(mem, str):
        if mem.isdecimal():
            size = 1 << int(mem)
        elif mem.lower().endswith("m"):
            size = int(mem[:-1]) << 20
        elif mem.lower().endswith("k"):
            size = int(mem[:-1]) << 10
        else:
            size = int(mem[:-1])
    else:
        size = 1 << mem
    return order, size


def _pyppmd_faulty_here(chain, stream, block=None) -> bool:
    """True when the third-party codecs, driven directly and alone (pybcj + pyppmd, no py7zr code),
    fail to round-trip the very byte stream this chain feeds them, in the very chunks py7zr hands over
    (each member is read in I/O blocks; the encoders are stateful across chunks). Used only to
    *classify* a violation (mechanism key 'codec-library/pyppmd-roundtrip'), never to excuse one silently.
    stream: bytes, or a list of members' bytes (chunk boundaries fall at member boundaries)."""
    pp = [c for c in chain if c["f"] == "PPMD"]
    if not pp:
        return False
    import bcj
    import pyppmd

    members = [stream] if isinstance(stream, (bytes, bytearray)) else list(stream)
    block = block or (1 << 20)
    front = [c["f"] for c in chain if c["f"] in G.BCJ]
    enc_cls = {"X86": bcj.BCJEncoder, "ARM": bcj.ARMEncoder, "ARMTHUMB": bcj.ARMTEncoder, "POWERPC": bcj.PPCEncoder, "SPARC": bcj.SparcEncoder}
    dec_cls = {"X86": bcj.BCJDecoder, "ARM": bcj.ARMDecoder, "ARMTHUMB": bcj.ARMTDecoder, "POWERPC": bcj.PPCDecoder, "SPARC": bcj.SparcDecoder}
    order, size = ppmd_params(pp[0])
    whole = b"".join(members)
    for chunked in (True, False):
        try:
            e = pyppmd.Ppmd7Encoder(order, size)
            be = enc_cls[front[0]]() if front else None
            packed = bytearray()
            pieces = []
            if chunked:
                for m in members:
                    for i in range(0, len(m), block):
                        pieces.append(m[i : i + block])
            else:
                pieces = [whole]
            for piece in pieces:
                x = be.encode(piece) if be else piece
                packed += e.encode(x)
            if be:
                packed += e.encode(be.flush())
            packed += e.flush()
            d = pyppmd.Ppmd7Decoder(order, size)
            n = len(whole)
            out = d.decode(bytes(packed), n)
            k = 0
            while len(out) < n and k < 8:
                out += d.decode(b"\0" if d.needs_input else b"", n - len(out))
                k += 1
            if front:
                bd = dec_cls[front[0]](n)
                o2 = bd.decode(out)
                k = 0
                while len(o2) < n and k < 8:
                    o2 += bd.decode(b"")
                    k += 1
                out = o2
            if out != whole:
                return True
        except Exception:
            return True
    return False


def pyppmd_faulty(*args, **kw) -> bool:
    """_pyppmd_faulty_here() in a forked child: the library driven alone may also kill the process it runs in (seen: SIGSEGV inside
    this classifier, which made a worker die where a violation was to be classified). Death by a signal counts as faulty."""
    import os

    pid = os.fork()
    if pid == 0:
        code = 2
        try:
            code = 1 if _pyppmd_faulty_here(*args, **kw) else 0
        finally:
            os._exit(code)
    _, st = os.waitpid(pid, 0)
    if os.WIFSIGNALED(st):
        return True
    return os.WEXITSTATUS(st) != 0


def rooted_in_rejection(e) -> bool:
    """True when an exception (or the chain of exceptions it replaced, e.g. a second error raised by
    close() inside a with-block) goes back to py7zr refusing the coder chain."""
    from py7zr.exceptions import UnsupportedCompressionMethodError

    seen = 0
    while e is not None and seen < 10:
        if isinstance(e, (UnsupportedCompressionMethodError, Rejected)):
            return True
        e = e.__context__ or e.__cause__
        seen += 1
    return False


def pybcj_small_feed_faulty(chain, stream, chunk) -> bool:
    """True when the third-party branch-filter decoder (pybcj), driven directly and alone, mis-decodes
    its own encoder's output when it is fed in pieces of `chunk` bytes (what a tiny extraction chunk
    limit makes the upstream decoder hand over). Classification only."""
    front = [c["f"] for c in chain if c["f"] in G.BCJ]
    if not front or not chunk or chunk > 8:
        return False
    import bcj

    enc_cls = {"X86": bcj.BCJEncoder, "ARM": bcj.ARMEncoder, "ARMTHUMB": bcj.ARMTEncoder, "POWERPC": bcj.PPCEncoder, "SPARC": bcj.SparcEncoder}
    dec_cls = {"X86": bcj.BCJDecoder, "ARM": bcj.ARMDecoder, "ARMTHUMB": bcj.ARMTDecoder, "POWERPC": bcj.PPCDecoder, "SPARC": bcj.SparcDecoder}
    whole = stream if isinstance(stream, (bytes, bytearray)) else b"".join(stream)
    try:
        e = enc_cls[front[0]]()
        enc = e.encode(whole) + e.flush()
        d = dec_cls[front[0]](len(whole))
        out = b""
        for i in range(0, len(enc), chunk):
            out += d.decode(enc[i : i + chunk])
        k = 0
        while len(out) < len(whole) and k < 10:
            out += d.decode(b"")
            k += 1
        return out != whole
    except Exception:
        return True


_PPMD_FEED = r"""
import struct, sys, pyppmd
order, mem, chunk, n = (int(x) for x in sys.argv[2:6])
packed = open(sys.argv[1], "rb").read()
d = pyppmd.Ppmd7Decoder(order, mem)
got = len(d.decode(packed, min(chunk, n)))
k = 0
while got < n and k < 4 * n + 64:
    got += len(d.decode(b"\0" if d.needs_input else b"", min(chunk, n - got)))
    k += 1
print("done", got)
"""


def pyppmd_decoder_crashes_alone(chain, stream, block, chunk) -> bool:
    """True when pyppmd's decoder, driven directly and alone in a fresh process, dies from a signal on the
    stream pyppmd's own encoder makes of these members (fed as py7zr's read loop feeds it: the packed stream,
    then empty input -- or the padding zero byte when the decoder asks for input -- until the output is
    complete, at most `chunk` bytes per call). Classification only."""
    import signal
    import subprocess
    import sys
    import tempfile

    pp = [c for c in chain if c["f"] == "PPMD"]
    if not pp:
        return False
    import bcj
    import pyppmd

    members = [stream] if isinstance(stream, (bytes, bytearray)) else list(stream)
    block = block or (1 << 20)
    order, size = ppmd_params(pp[0])
    front = [c["f"] for c in chain if c["f"] in G.BCJ]
    enc_cls = {"X86": bcj.BCJEncoder, "ARM": bcj.ARMEncoder, "ARMTHUMB": bcj.ARMTEncoder, "POWERPC": bcj.PPCEncoder, "SPARC": bcj.SparcEncoder}
    be = enc_cls[front[0]]() if front and front[0] in enc_cls else None
    e = pyppmd.Ppmd7Encoder(order, size)
    packed = bytearray()
    for m in members:
        for i in range(0, len(m), block):
            piece = m[i : i + block]
            packed += e.encode(be.encode(piece) if be else piece)
    if be:
        packed += e.encode(be.flush())
    packed += e.flush()
    n = sum(len(m) for m in members)
    chunk = chunk or n
    with tempfile.NamedTemporaryFile(prefix="vf-ppmd-", suffix=".bin") as f:
        f.write(packed)
        f.flush()
        try:
            p = subprocess.run([sys.executable, "-c", _PPMD_FEED, f.name, str(order), str(size), str(chunk), str(n)], capture_output=True, timeout=600)
        except subprocess.TimeoutExpired:
            return False
    return p.returncode < 0 and -p.returncode in (signal.SIGSEGV, signal.SIGABRT, signal.SIGBUS)


_PPMD_REPLAY = r"""
import gc, json, sys, pyppmd
ops = json.load(open(sys.argv[1]))
errs = [0]
def run():
    objs = {}
    for op in ops:
        if op[0] == "new":
            objs[op[1]] = pyppmd.Ppmd7Decoder(op[2], op[3])
        elif op[0] == "dec" and op[1] in objs:
            try:
                objs[op[1]].decode(bytes.fromhex(op[2]), op[3])
            except SystemError:
                errs[0] += 1
            except Exception:
                pass
        elif op[0] == "del":
            objs.pop(op[1], None)
for i in range(5):
    run()
gc.collect()
before = {id(o) for o in gc.get_objects()}
errs[0] = 0
for i in range(10):
    run()
gc.collect()
lost = [o for o in gc.get_objects() if id(o) not in before and type(o) is list and o and all(type(x) is bytes for x in o) and len(gc.get_referrers(o)) <= 1]
print("RESULT", len(lost), sum(len(x) for l in lost for x in l), errs[0])
"""


def pyppmd_alone_leaks_on_failed_decode(feed):
    """feed: the operations recorded at pyppmd's boundary ([new, id, order, mem] / [dec, id, hex, max_length] / [del, id]).
    Replays them against pyppmd alone in a fresh process, 5 + 10 rounds. -> (orphaned lists, their bytes, SystemErrors) of the last
    10 rounds when decode() failed with SystemError and left lists of bytes behind that nothing refers to; None otherwise."""
    import json
    import subprocess
    import sys
    import tempfile

    with tempfile.NamedTemporaryFile("w", suffix=".json") as f:
        json.dump(feed, f)
        f.flush()
        try:
            p = subprocess.run([sys.executable, "-c", _PPMD_REPLAY, f.name], capture_output=True, timeout=300)
        except subprocess.TimeoutExpired:
            return None
    for line in p.stdout.decode("utf-8", "replace").splitlines():
        if line.startswith("RESULT "):
            n, b, e = (int(x) for x in line.split()[1:4])
            if n >= 5 and b > 0 and e > 0:
                return (n, b, e)
    return None


def inflate64_faulty(chain, pieces) -> bool:
    """True when the third-party Deflate64 codec (inflate64), driven directly and alone (through pybcj when a branch
    filter is in front), does not give back what it was fed when it is fed these very pieces one deflate() call each.
    Classification only (key 'codec-library/inflate64-roundtrip')."""
    if not any(c["f"] == "DEFLATE64" for c in chain):
        return False
    import bcj
    import inflate64

    front = [c["f"] for c in chain if c["f"] in G.BCJ]
    enc_cls = {"X86": bcj.BCJEncoder, "ARM": bcj.ARMEncoder, "ARMTHUMB": bcj.ARMTEncoder, "POWERPC": bcj.PPCEncoder, "SPARC": bcj.SparcEncoder}
    try:
        be = enc_cls[front[0]]() if front and front[0] in enc_cls else None
        c = inflate64.Deflater()
        fed = bytearray()
        packed = bytearray()
        for piece in pieces:
            x = be.encode(piece) if be else piece
            fed += x
            packed += c.deflate(x)
        if be:
            x = be.flush()
            fed += x
            packed += c.deflate(x)
        packed += c.flush()
        return inflate64.Inflater().inflate(bytes(packed)) != bytes(fed)
    except Exception:
        return True
