"""C17 — header values survive storage across their legal range.
Differential against the specification-derived codec (vf/ref7z/numbers) + whole-header round trips."""
import io
import random
import struct
import zlib

from vf.props import common as K
from vf.ref7z import numbers as N
from vf.ref7z import reader as R
from vf.ref7z import writer as W

LEVEL = "exploration"
CASE_TIMEOUT = 600
CPU_BUDGET = 400
REQUIRED_OBS = ["number_write_checks", "number_read_checks", "bool_checks", "name_checks", "header_roundtrips"]
RULE = ("batches of primitive evaluations: NUMBER write (py7zr) -> reference decode + py7zr decode; NUMBER read of every conforming "
        "encoding length (reference encode) ; boolean vectors 0..130 x patterns x all-defined shortcut both ways; UTF-16 names; "
        "FILETIME/attribute vectors; whole headers built by the reference writer with extreme values -> Header.retrieve -> "
        "Header.write (raw and encoded) -> reference parse -> field-by-field comparison incl. definedness. "
        "Cell = (kind, class) e.g. (number-write, 5-byte/lead-0xf0/low-ones).")
EXHAUSTIVE = {"quick": "NUMBER classes: every (byte length 1..9, boundary of the leading-byte range, low-byte pattern); all 2^k-1,2^k,2^k+1; all values < 2^16; boolean vectors of every length 0..130 x 6 patterns x shortcut on/off",
              "thorough": "as quick, plus every value < 2^24 (write and read direction)"}


def _number_class_values():
    vals = set()
    for n in range(0, 9):  # n extra bytes
        if n < 8:
            lo = 0 if n == 0 else 1 << (7 - (n - 1) + 8 * (n - 1))
            hi = (1 << (7 - n + 8 * n)) - 1
        else:
            lo, hi = 1 << 56, (1 << 64) - 1
        for v in (lo, lo + 1, hi - 1, hi):
            vals.add(v)
        # each leading-byte value of the class x low byte patterns
        free = 7 - n if n < 8 else 0
        for high in range(0, 1 << max(free, 0)):
            for low in (0, (1 << (8 * n)) - 1, int.from_bytes(bytes(range(1, n + 1)), "little") if n else 0):
                v = (high << (8 * n)) | low
                if v < 1 << 64:
                    vals.add(v)
    for k in range(65):
        for d in (-1, 0, 1):
            v = (1 << k) + d
            if 0 <= v < 1 << 64:
                vals.add(v)
    return sorted(vals)


def cases(rng, tier):
    out = []
    cls = _number_class_values()
    for i in range(0, len(cls), 200):
        out.append({"kind": "numbers", "values": [str(v) for v in cls[i : i + 200]], "label": "classes"})
    out.append({"kind": "number_range", "lo": 0, "hi": 1 << 16})
    for i in range(8):
        out.append({"kind": "numbers_random", "seed": rng.getrandbits(32), "count": 3000})
    if tier == "thorough":
        step = 1 << 19
        for lo in range(1 << 16, 1 << 24, step):
            out.append({"kind": "number_range", "lo": lo, "hi": min(lo + step, 1 << 24)})
    for lo in range(0, 131, 10):
        out.append({"kind": "bools", "lo": lo, "hi": min(lo + 10, 131), "seed": rng.getrandbits(32)})
    for i in range(6 if tier == "quick" else 40):
        out.append({"kind": "names", "seed": rng.getrandbits(32), "count": 150})
    for i in range(60 if tier == "quick" else 1200):
        out.append({"kind": "header", "seed": rng.getrandbits(32), "encoded": bool(i & 1)})
    for hdr in ("raw", "lzma+crc"):
        out.append({"kind": "listed-times", "header": hdr})
    return out


def _check_number_write(A, v, viol, obs):
    buf = io.BytesIO()
    A.write_uint64(buf, v)
    b = buf.getvalue()
    obs["number_write_checks"] += 1
    if len(b) > 9:
        viol.append({"key": "number/write-too-long", "what": "%d written as %d bytes" % (v, len(b))})
        return
    try:
        rv, p = N.decode_number(b, 0)
    except N.RefError as e:
        viol.append({"key": "number/write-undecodable", "what": "%d written as %s: %s" % (v, b.hex(), e)})
        return
    if rv != v or p != len(b):
        viol.append({"key": "number/write-wrong-value", "what": "%d written as %s, specification decodes %d using %d bytes" % (v, b.hex(), rv, p)})
    back = A.read_uint64(io.BytesIO(b + b"\xaa"))
    if back != v:
        viol.append({"key": "number/self-roundtrip", "what": "%d written as %s, py7zr reads %d" % (v, b.hex(), back)})


def _check_number_read(A, v, viol, obs):
    minimal = len(N.encode_number(v))
    for ln in range(minimal, 10):
        try:
            enc = N.encode_number(v, ln)
        except ValueError:
            continue
        f = io.BytesIO(enc + b"\x55\x55")
        got = A.read_uint64(f)
        obs["number_read_checks"] += 1
        if got != v or f.tell() != len(enc):
            viol.append({"key": "number/read-%s" % ("minimal" if ln == minimal else "nonminimal"),
                         "what": "encoding %s of %d (%d bytes) read as %d consuming %d" % (enc.hex(), v, ln, got, f.tell())})
            return


def run_case(case):
    from py7zr import archiveinfo as A

    viol = []
    obs = {k: 0 for k in REQUIRED_OBS}
    cells = []
    kind = case["kind"]
    if kind in ("numbers", "number_range", "numbers_random"):
        if kind == "numbers":
            vals = [int(v) for v in case["values"]]
        elif kind == "number_range":
            vals = range(case["lo"], case["hi"])
        else:
            r = random.Random(case["seed"])
            vals = [r.getrandbits(r.randint(1, 64)) for _ in range(case["count"])]
        for v in vals:
            _check_number_write(A, v, viol, obs)
            _check_number_read(A, v, viol, obs)
            if len(viol) > 20:
                break
        seen = set()
        for v in (vals if kind != "number_range" else (case["lo"], case["hi"] - 1)):
            n = len(N.encode_number(v))
            seen.add("number|%d-byte" % n)
        cells = sorted(seen) + ["number|%s|%s" % (kind, case.get("lo", case.get("seed", case.get("label"))))]
        sample = {"kind": kind, "first": str(vals[0]), "n": len(vals)}
    elif kind == "bools":
        r = random.Random(case["seed"])
        for n in range(case["lo"], case["hi"]):
            pats = [[True] * n, [False] * n, [i != n // 2 for i in range(n)], [i == n - 1 for i in range(n)],
                    [bool(r.getrandbits(1)) for _ in range(n)], [i % 8 == 7 for i in range(n)]]
            for pat in pats:
                for alldef in (False, True):
                    obs["bool_checks"] += 1
                    buf = io.BytesIO()
                    A.write_boolean(buf, pat, all_defined=alldef)
                    b = buf.getvalue()
                    try:
                        if alldef:
                            got, p = N.decode_defined_vector(b, 0, n)
                        else:
                            got, p = N.decode_bits(b, 0, n)
                        if got != pat or p != len(b):
                            viol.append({"key": "bool/write", "what": "vector len %d alldef=%s written as %s; specification decodes %r" % (n, alldef, b.hex(), got[:16])})
                    except N.RefError as e:
                        viol.append({"key": "bool/write-undecodable", "what": "vector len %d alldef=%s written as %s: %s" % (n, alldef, b.hex(), e)})
                    # read direction: both the shortcut and the explicit form
                    forms = [N.encode_bits(pat)] if not alldef else [N.encode_defined_vector(pat), N.encode_defined_vector(pat, True)]
                    for enc in forms:
                        f = io.BytesIO(enc + b"\xff")
                        got = A.read_boolean(f, n, checkall=alldef)
                        if list(got) != pat or f.tell() != len(enc):
                            viol.append({"key": "bool/read", "what": "encoding %s of vector len %d (alldef=%s) read as %r, consumed %d" % (enc.hex(), n, alldef, list(got)[:16], f.tell())})
            cells.append("bool|len%d" % n)
        sample = {"kind": "bools", "lengths": [case["lo"], case["hi"] - 1]}
    elif kind == "listed-times":
        # timestamps over the whole unsigned range, through a whole archive and the listing interface
        import py7zr

        vals = [0, 1, 116444736000000000, (1 << 63) - 1, 1 << 63, (1 << 64) - 1, 2650467743999999999, 2650467744000000000, None]
        mem = [{"name": "t%d" % i, "kind": "file", "data": b"x%d" % i, "attributes": 0x20, "mtime": v} for i, v in enumerate(vals)]
        data = W.build(mem, {"folders": [{"n": len(mem), "chain": [{"m": "COPY"}], "crc": "sub"}], "header": case["header"]})
        try:
            with py7zr.SevenZipFile(io.BytesIO(data)) as z:
                got = [None if f.lastwritetime is None else int(f.lastwritetime) for f in z.files]
                if got != vals:
                    viol.append({"key": "archive/read-mtime", "what": "modification times %r read as %r" % (vals, got)})
                try:
                    ls = z.list()
                    if len(ls) != len(vals):
                        viol.append({"key": "archive/list-count", "what": "list() returns %d entries for %d members" % (len(ls), len(vals))})
                    elif ls[-1].creationtime is not None:
                        viol.append({"key": "archive/list-invents-time", "what": "member without modification time listed with %r" % (ls[-1].creationtime,)})
                except Exception as e:
                    viol.append({"key": "archive/list-raises/%s" % type(e).__name__, "what": "list() on an archive holding FILETIMEs %r raised %s" % (vals, e)})
        except Exception as e:
            viol.append({"key": "archive/open-raises/%s" % type(e).__name__, "what": "archive with extreme timestamps: %s" % e})
        obs["header_roundtrips"] += 1
        cells.append("listed-times|" + case["header"])
        sample = {"kind": "listed-times"}
    elif kind == "names":
        r = random.Random(case["seed"])
        from vf.gen import basic as G

        for i in range(case["count"]):
            fl = r.choice(["ascii", "ctrl", "bmp", "combining", "astral", "long-mixed"])
            if fl == "long-mixed":
                ln = r.choice([1, 2, 255, 256, 1000, 4096])
                alph = "aé漢\U0001F600\u0001\u001f /.\\:"
                name = "".join(r.choice(alph) for _ in range(ln))
            else:
                name = "/".join(G.component(r, fl, maxlen=20) for _ in range(r.randint(1, 6)))
            obs["name_checks"] += 1
            buf = io.BytesIO()
            A.write_utf16(buf, name)
            b = buf.getvalue()
            try:
                got, p = N.decode_utf16_name(b, 0)
                if got != name or p != len(b):
                    viol.append({"key": "name/write", "what": "name %r written so that the specification reads %r" % (name[:40], got[:40])})
            except Exception as e:
                viol.append({"key": "name/write-undecodable", "what": "name %r: %s" % (name[:40], e)})
            f = io.BytesIO(N.encode_utf16_name(name) + b"zz")
            back = A.read_utf16(f)
            if back != name or f.tell() != 2 * len(name.encode("utf-16-le")) // 2 + 2:
                viol.append({"key": "name/read", "what": "name %r (len %d) read back as %r" % (name[:40], len(name), back[:40])})
            cells.append("name|%s|len%s" % (fl, "1" if len(name) == 1 else ("<256" if len(name) < 256 else ">=256")))
        cells = sorted(set(cells))
        sample = {"kind": "names", "count": case["count"]}
    else:
        sample, cells = _header_case(case, viol, obs)
    if viol:
        seen = {}
        for v in viol:
            seen.setdefault(v["key"], v)
        return K.result("violated", violations=list(seen.values()), cells=cells, obs=obs, sample=sample)
    return K.result("held", cells=cells, obs=obs, sample=sample)


EXTREME = [0, 1, 127, 128, 255, 256, 16383, 16384, (1 << 21) - 1, 1 << 21, (1 << 32) - 1, 1 << 32, (1 << 56) - 1, 1 << 56, (1 << 63), (1 << 64) - 1]


def _header_case(case, viol, obs):
    from py7zr import archiveinfo as A

    r = random.Random(case["seed"])
    nfiles = r.choice([1, 2, 3, 7, 8, 9, 16, 17, 33, 64, 65, 130])
    tdef = r.choice(["all", "none", "partial", "one"])
    adef = r.choice(["all", "partial", "one"])
    cdef = r.choice(["none", "none", "partial", "one", "all"])  # creation / access times: rarer, but part of the format
    files = []
    for i in range(nfiles):
        kind = r.choice(["file", "file", "file", "emptyfile", "dir"])
        m = {"name": "n%d_%s" % (i, r.choice(["x", "é", "\U0001F600", "\u0001"])), "kind": kind}
        def pick(mode, gen):
            if mode == "all":
                return gen()
            if mode == "none":
                return None
            if mode == "one":
                return gen() if i == nfiles // 2 else None
            return gen() if r.random() < 0.5 else None
        m["mtime"] = pick(tdef, lambda: r.choice(EXTREME + [r.getrandbits(64)]))
        m["ctime"] = pick(cdef, lambda: r.choice(EXTREME + [r.getrandbits(64)]))
        m["atime"] = pick(cdef if i % 2 else "none", lambda: r.choice(EXTREME + [r.getrandbits(64)]))
        m["attributes"] = pick(adef, lambda: r.choice([0, 0x10, 0x20, 0xFFFFFFFF, 0x80000000, r.getrandbits(32)]))
        files.append(m)
    nstream = sum(1 for m in files if m["kind"] == "file")
    # folders: partition of stream files
    folders = []
    left = nstream
    while left > 0:
        k = r.randint(1, left)
        sub = [r.choice(EXTREME[:12] + [r.getrandbits(r.randint(1, 40))]) for _ in range(k)]
        tot = sum(sub)
        folders.append({"coders": [(b"\x00", None)], "sizes": [tot], "folder_crc": None, "sub_sizes": sub,
                        "sub_crcs": [r.getrandbits(32) for _ in range(k)]})
        left -= k
    pack_sizes = [r.choice(EXTREME[:14]) for _ in folders]
    pcm = r.choice(["none", "none", "all", "partial"])
    pack_crcs = None if pcm == "none" or not folders else [(r.getrandbits(32) if (pcm == "all" or r.random() < 0.5) else None) for _ in folders]
    desc = {"pack_pos": 0, "pack_sizes": pack_sizes, "pack_crcs": pack_crcs, "folders": folders, "files": files}
    lay = {"nonminimal": r.choice([0, 0, 1, 3]), "explicit_defvec": r.random() < 0.3, "dummy": r.choice([None, 0, 3, 200]), "startpos": r.random() < 0.15}
    hdr = W.build_raw_header(desc, lay)
    cells = ["header|n%s|t:%s|a:%s|%s" % ("<9" if nfiles < 9 else ("<65" if nfiles < 65 else ">=65"), tdef, adef, "enc" if case["encoded"] else "raw")]
    sample = {"kind": "header", "files": nfiles, "folders": len(folders), "mtime": tdef, "attr": adef, "encoded": case["encoded"]}
    # reference sanity (harness fault otherwise)
    st0, f0, F0 = R.parse_header_bytes(hdr)
    if F0:
        raise RuntimeError("reference writer/reader disagree: %r" % F0[:2])
    try:
        h = A.Header.retrieve(io.BytesIO(b""), io.BytesIO(hdr), 0)
    except Exception as e:
        viol.append({"key": "header/retrieve-raises/%s" % type(e).__name__, "what": "Header.retrieve on a conforming header (files %d, mtime %s, attr %s, layout %r) raised %s" % (nfiles, tdef, adef, lay, e)})
        return sample, cells
    # values as read
    got_files = h.files_info.files if h.files_info else []
    if len(got_files) != nfiles:
        viol.append({"key": "header/read-filecount", "what": "read %d files, written %d" % (len(got_files), nfiles)})
        return sample, cells
    for m, g in zip(files, got_files):
        if g.get("filename") != m["name"]:
            viol.append({"key": "header/read-name", "what": "name %r read as %r" % (m["name"], g.get("filename"))})
        gt = g.get("lastwritetime")
        if (None if gt is None else int(gt)) != m["mtime"]:
            viol.append({"key": "header/read-mtime", "what": "mtime %r read as %r (vector %s, %d files)" % (m["mtime"], gt, tdef, nfiles)})
        if g.get("attributes") != m["attributes"]:
            viol.append({"key": "header/read-attributes", "what": "attributes %r read as %r (vector %s)" % (m["attributes"], g.get("attributes"), adef)})
        if bool(g.get("emptystream")) != (m["kind"] != "file"):
            viol.append({"key": "header/read-emptystream", "what": "emptystream of %r read as %r" % (m["kind"], g.get("emptystream"))})
    if folders:
        ss = h.main_streams.substreamsinfo
        want_sizes = [z for f in folders for z in f["sub_sizes"]]
        want_crcs = [z for f in folders for z in f["sub_crcs"]]
        if list(ss.unpacksizes or []) != want_sizes and not (ss.unpacksizes is None and all(len(f["sub_sizes"]) == 1 for f in folders)):
            viol.append({"key": "header/read-substream-sizes", "what": "substream sizes read %r, written %r" % (list(ss.unpacksizes or [])[:6], want_sizes[:6])})
        if list(ss.digests) != want_crcs:
            viol.append({"key": "header/read-digests", "what": "digests read %r.., written %r.." % (list(ss.digests)[:4], want_crcs[:4])})
        if list(h.main_streams.packinfo.packsizes) != pack_sizes:
            viol.append({"key": "header/read-packsizes", "what": "pack sizes read %r, written %r" % (h.main_streams.packinfo.packsizes[:6], pack_sizes[:6])})
    obs["header_roundtrips"] += 1
    if viol:
        return sample, cells
    # re-serialise with py7zr and parse with the reference
    out = io.BytesIO()
    out.write(bytes(32))
    try:
        if case["encoded"]:
            h.password = None
            start, hlen, hcrc = h.write(out, 32, encoded=True, encrypted=False)
            whole = bytearray(out.getvalue())
            sh = struct.pack("<QQL", start - 32, hlen, hcrc)
            whole[:32] = W.MAGIC + b"\x00\x04" + struct.pack("<L", zlib.crc32(sh) & 0xFFFFFFFF) + sh
            # decode the encoded header with the reference, then parse the inner raw header
            inner = _ref_decode_encoded(bytes(whole))
        else:
            start, hlen, hcrc = h.write(out, 32, encoded=False)
            inner = out.getvalue()[start : start + hlen]
            if zlib.crc32(inner) & 0xFFFFFFFF != hcrc:
                viol.append({"key": "header/write-crc", "what": "Header.write returned CRC %08x, bytes have %08x" % (hcrc, zlib.crc32(inner) & 0xFFFFFFFF)})
    except Exception as e:
        import traceback

        viol.append({"key": "header/write-raises/%s" % type(e).__name__, "what": "Header.write (files %d, mtime %s, attr %s) raised %s" % (nfiles, tdef, adef, e), "trace": traceback.format_exc()[-800:]})
        return sample, cells
    try:
        st1, f1, F1 = R.parse_header_bytes(inner)
    except Exception as e:
        viol.append({"key": "header/rewrite-unparsable/%s" % type(e).__name__, "what": "header re-serialised by py7zr (files %d, mtime vector %s, attr vector %s) is rejected by the reference parser: %s" % (nfiles, tdef, adef, e)})
        return sample, cells
    for f in F1:
        code, _, text = f.partition("| ")
        viol.append({"key": "header/rewrite-structure/" + code, "what": "re-serialised header (mtime vector %s, attr vector %s, %d files): %s" % (tdef, adef, nfiles, text[:200])})
    if len(f1) != nfiles:
        viol.append({"key": "header/rewrite-filecount", "what": "re-serialised header has %d files, original %d" % (len(f1), nfiles)})
        return sample, cells
    for m, g in zip(files, f1):
        if g.name != m["name"]:
            viol.append({"key": "header/rewrite-name", "what": "%r -> %r" % (m["name"], g.name)})
        if g.mtime != m["mtime"]:
            viol.append({"key": "header/rewrite-mtime", "what": "mtime %r re-serialised as %r (vector %s)" % (m["mtime"], g.mtime, tdef)})
        if g.attributes != m["attributes"]:
            viol.append({"key": "header/rewrite-attributes", "what": "attributes %r re-serialised as %r (vector %s)" % (m["attributes"], g.attributes, adef)})
        if g.ctime != m["ctime"] or g.atime != m["atime"]:
            viol.append({"key": "header/rewrite-ctime-atime", "what": "creation/access time %r/%r re-serialised as %r/%r (vector %s)" % (m["ctime"], m["atime"], g.ctime, g.atime, cdef)})
        if g.has_stream != (m["kind"] == "file"):
            viol.append({"key": "header/rewrite-emptystream", "what": "%s entry re-serialised with has_stream=%s" % (m["kind"], g.has_stream)})
        elif not g.has_stream and g.is_dir != (m["kind"] == "dir"):
            viol.append({"key": "header/rewrite-emptyfile-flag", "what": "%s entry re-serialised as %s (EmptyFile vector lost or shifted)" % (m["kind"], "dir" if g.is_dir else "emptyfile")})
    if folders and st1 is not None:
        if [z for s in st1.sub_sizes for z in s] != [z for f in folders for z in f["sub_sizes"]]:
            viol.append({"key": "header/rewrite-substream-sizes", "what": "substream sizes changed by the round trip"})
        if [z for s in st1.sub_crcs for z in s] != [z for f in folders for z in f["sub_crcs"]]:
            viol.append({"key": "header/rewrite-digests", "what": "digests changed by the round trip"})
        if st1.pack_sizes != pack_sizes:
            viol.append({"key": "header/rewrite-packsizes", "what": "pack sizes changed by the round trip"})
        if pack_crcs is not None and any(c is not None for c in pack_crcs) and list(getattr(st1, "pack_crcs", None) or []) != pack_crcs:
            viol.append({"key": "header/rewrite-pack-crcs", "what": "packed-stream CRC vector %r re-serialised as %r" % (pack_crcs[:6], list(getattr(st1, "pack_crcs", None) or [])[:6])})
    obs["header_roundtrips"] += 1
    return sample, cells


def _ref_decode_encoded(whole: bytes) -> bytes:
    nh_ofs, _ = N.u64(whole, 12)
    nh_size, _ = N.u64(whole, 20)
    hdr = whole[32 + nh_ofs : 32 + nh_ofs + nh_size]
    cur = R._Cur(hdr)
    if cur.byte() != R.K_ENCODED:
        raise R.RefError("encoded header expected")
    F = []
    est = R._read_streamsinfo(cur, F)
    f = est.folders[0]
    pos = 32 + est.pack_pos
    packed = [whole[pos : pos + est.pack_sizes[0]]]
    out = R.decode_folder(f, packed, None, F, "header: ")
    if f.crc is not None and zlib.crc32(out) & 0xFFFFFFFF != f.crc:
        raise R.RefError("decoded header CRC mismatch")
    return out
