"""C19 — the command line mirrors the library and its exit status tells the truth
(process-level differential: real 'python -m py7zr' subprocesses vs library ground truth)."""
import glob
import io
import os
import subprocess
import sys

from vf.core import pz
from vf.gen import damage as D
from vf.gen import trees as T
from vf.props import common as K
from vf.props import corpus
from vf.props.c02 import expected_image

LEVEL = "exploration"
CASE_TIMEOUT = 600
CPU_BUDGET = 400
REQUIRED_OBS = ["cli_invocations", "trees_round_tripped", "damaged_archives_judged", "volume_sizes_tried"]
RULE = ("real subprocesses 'python -m py7zr <cmd>': (tree) c then l / t / x (+-output dir, +-verbose, archive name with .7z / without / without but with other dots in the base name) then a: x reproduces the tree "
        "(C02 walker), l prints exactly the library's member names, a keeps earlier members; (volume) c -v SIZE for every suffix b,k,m,g,B,K,M,G and none: exit 0, "
        "volumes exist, their concatenation reads back; (damage) corpus archives damaged (bit flips, truncation, overwrites), first classified by the library oracle into "
        "content-intact / not-intact: t and x must exit 0 iff intact; (fixtures) encrypted archives without -P, LZ4 and BCJ2 archives: t and x must exit non-zero; i exits 0. "
        "Cell = (kind, subcommand, options, expected status, observed status).")
ASSUMPTIONS = ["passwords cannot be fed to getpass() without a tty: the -P paths are not driven", "symlink-free trees for the CLI round trip are compared like C02 (modes, mtimes, bytes)"]


# archive names as typed: with the extension, without, and without but with other dots in the base name
ARCNAMES = ["out.7z", "out", "backup.2024", "out.7z", "site.tar", "release-1.2", "a.b.7z", "x.y.z"]


def _name_class(n):
    return "with-ext" if n.endswith(".7z") else ("no-ext-dotted" if "." in n else "no-ext")


def cases(rng, tier):
    seed = int(os.environ.get("VERIF_SEED", "0") or 0)
    corp = corpus.get(tier, seed)
    out = []
    for i in range(16 if tier == "quick" else 250):
        out.append({"kind": "tree", "tree": T.tree(rng, max_entries=8, max_len=5000, links=(i % 3 == 0)), "arcarg": ARCNAMES[i % len(ARCNAMES)], "odir": i % 3 != 1, "verbose": i % 4 == 0, "seed": rng.getrandbits(30)})
    for suf in ["", "b", "k", "m", "g", "B", "K", "M", "G"]:
        out.append({"kind": "volume", "size": {"": "10000", "b": "5000b", "k": "3k", "m": "1m", "g": "1g", "B": "7000B", "K": "2K", "M": "2M", "G": "1G"}[suf], "suffix": suf,
                    "arcarg": ["vol.7z", "vol", "vol-1.2"][len(out) % 3]})
    for a in corp[:: (3 if tier == "quick" else 1)]:
        if a["password"] is not None:
            continue
        size = len(a["hex"]) // 2
        ops = [["flip", rng.randrange(size * 8)] for _ in range(3 if tier == "quick" else 12)] + [["trunc", rng.randrange(32, size)], ["set", 32 + max(0, a["pack_total"] // 2), 0x55], ["flip", 6 * 8 + 1]]
        out.append({"kind": "damage", "arc": a, "ops": ops})
    root = os.environ.get("VERIF_REPO", "/repo")
    for fn, expect in [("encrypted_1.7z", "password"), ("encrypted_3.7z", "password"), ("filename_encryption.7z", "password"), ("lz4.7z", "unsupported"), ("lzma_bcj2_1.7z", "unsupported"),
                       ("test_1.7z", "ok"), ("solid.7z", "ok"), ("copy.7z", "ok"), ("crc_corrupted.7z", "damaged"), ("data_corrupted.7z", "damaged"),
                       # intact archives without any packed stream (no members, or directories and empty files only)
                       ("empty.7z", "ok"), ("test_folder.7z", "ok"), ("hidden_linux_file.7z", "ok"), ("hidden_linux_folder.7z", "ok")]:
        p = os.path.join(root, "tests", "data", fn)
        if os.path.exists(p):
            out.append({"kind": "fixture", "path": p, "expect": expect})
    out.append({"kind": "info"})
    # 'a' on something that is not (any more) an archive it can append to: non-zero, and the file stays as it was
    for how in ("flip-end-header", "flip-start-header", "cut-tail", "text-file"):
        out.append({"kind": "append-bad", "how": how})
    out.append({"kind": "volume-zero"})
    # fifth hunt: a tree with a dangling link (and one pointing at itself); a tree with a FIFO; volume sets smaller than the signature header; year 9999 east of UTC
    out.append({"kind": "odd-tree", "what": "dangling-links"})
    out.append({"kind": "odd-tree", "what": "fifo"})
    for v in ("8", "16b", "5", "31"):
        out.append({"kind": "tiny-volumes", "size": v})
    out.append({"kind": "far-future"})
    return out


def _listing(data):
    import io

    import py7zr

    try:
        with py7zr.SevenZipFile(io.BytesIO(data)) as z:
            return z.getnames()
    except Exception as e:
        return "unreadable: %s" % type(e).__name__


def _cli(args, cwd, obs, timeout=120):
    env = dict(os.environ)
    root = os.environ.get("VERIF_REPO")
    if root:
        env["PYTHONPATH"] = root + os.pathsep + env.get("PYTHONPATH", "")
    env["COLUMNS"] = "200"
    obs["cli_invocations"] = obs.get("cli_invocations", 0) + 1
    try:
        p = subprocess.run([sys.executable, "-m", "py7zr"] + args, cwd=cwd, capture_output=True, timeout=timeout, env=env, stdin=subprocess.DEVNULL)
        # no universal-newline translation: member names may contain \r
        return p.returncode, p.stdout.decode("utf-8", "replace"), p.stderr.decode("utf-8", "replace")
    except subprocess.TimeoutExpired:
        return "timeout", "", ""


def _lib_intact(img, names, want):
    try:
        n, got = pz.read_mem(img)
        return n == names and all(got.get(k) == v for k, v in want.items())
    except Exception:
        return False


def run_case(case):
    import py7zr

    viol = []
    obs = {k: 0 for k in REQUIRED_OBS}
    cells = set()
    with pz.scratch("vf-c19-") as d:
        if case["kind"] == "tree":
            work = os.path.join(d, "w")
            os.mkdir(work)
            src = os.path.join(work, "src")
            T.make(src, case["tree"])
            os.utime(src, ns=(1_600_000_000_000_000_000, 1_600_000_000_000_000_000))
            arcarg = case["arcarg"]
            A = arcarg if arcarg.endswith(".7z") else arcarg + ".7z"  # where the archive has to be: the name as typed, completed by the extension
            rc, so, se = _cli(["c", arcarg, "src"], work, obs)
            if rc != 0:
                viol.append({"key": "c-fails/rc=%s" % rc, "what": "py7zr c %s src -> exit %s: %s" % (arcarg, rc, (se or so)[-200:])})
            arc = os.path.join(work, A)
            if not os.path.exists(arc):
                viol.append({"key": "c-no-archive", "what": "py7zr c %s exits %s but there is no %s (directory now holds %r)" % (arcarg, rc, A, sorted(os.listdir(work))[:6])})
            else:
                with py7zr.SevenZipFile(arc) as z:
                    libnames = z.getnames()
                rc, so, se = _cli(["l", A] + (["--verbose"] if case["verbose"] else []), work, obs)
                if rc != 0:
                    viol.append({"key": "l-fails/rc=%s" % rc, "what": "py7zr l -> exit %s: %s" % (rc, se[-200:])})
                else:
                    # the table lies between the two dashed lines; names may contain any character (also \n, \r),
                    # so look each name up in the table text instead of splitting it into rows
                    marks = [i for i in range(len(so)) if so.startswith("------------------- -----", i)]
                    table = so[marks[0]:marks[-1]] if len(marks) >= 2 else ""
                    missing = [n for n in libnames if (" " + n + "\n") not in table]
                    if missing:
                        viol.append({"key": "l-misses-member", "what": "py7zr l does not show %r (library lists %d members)" % (missing[:3], len(libnames))})
                cells.add("tree|l|%s|rc%s" % ("verbose" if case["verbose"] else "-", rc))
                rc, so, se = _cli(["t", A], work, obs)
                if rc != 0:
                    viol.append({"key": "t-fails-on-intact/rc=%s" % rc, "what": "py7zr t on a fresh archive -> exit %s: %s" % (rc, (so + se)[-200:])})
                cells.add("tree|t|rc%s" % rc)
                if case["odir"]:
                    rc, so, se = _cli(["x", A, "xdir"] + (["--verbose"] if case["verbose"] else []), work, obs)
                    top = os.path.join(work, "xdir", "src")
                else:
                    os.mkdir(os.path.join(work, "cwdx"))
                    rc, so, se = _cli(["x", "../" + A] + (["--verbose"] if case["verbose"] else []), os.path.join(work, "cwdx"), obs)
                    top = os.path.join(work, "cwdx", "src")
                cells.add("tree|x|%s|%s|%s|rc%s" % ("odir" if case["odir"] else "cwd", "verbose" if case["verbose"] else "-", _name_class(case["arcarg"]), rc))
                if "Traceback (most recent call last)" in so + se:
                    viol.append({"key": "x-prints-traceback/%s" % ("verbose" if case["verbose"] else "-"), "what": "py7zr x%s -> exit %s with a traceback: %s" % (
                        " --verbose" if case["verbose"] else "", rc, (se or so).strip().splitlines()[-1][:200])})
                if rc != 0:
                    viol.append({"key": "x-fails-on-intact/rc=%s/%s" % (rc, "odir" if case["odir"] else "cwd"), "what": "py7zr x -> exit %s: %s" % (rc, (so + se)[-300:])})
                else:
                    want = expected_image(case["tree"], False)
                    got = pz.walk_tree(top) if os.path.isdir(top) else {}
                    obs["trees_round_tripped"] += 1
                    for p_, w in want.items():
                        g = got.get(p_)
                        if g is None:
                            viol.append({"key": "x-missing/%s" % w["kind"], "what": "c then x: %r (%s) not reproduced" % (p_, w["kind"])})
                            break
                        if g["kind"] != w["kind"] or (w["kind"] == "file" and g["data"] != w["data"]) or (w["kind"] == "link" and g["target"] != w["target"]):
                            viol.append({"key": "x-differs/%s" % w["kind"], "what": "c then x: %r differs" % p_})
                            break
                        if w["kind"] in ("file", "dir") and (g["mode"] != w["mode"] or abs(g["mtime_ns"] - w["mtime_ns"]) > 5000):
                            viol.append({"key": "x-metadata/%s" % w["kind"], "what": "c then x: %r mode %o/%o mtime diff %d ns" % (p_, g["mode"], w["mode"], g["mtime_ns"] - w["mtime_ns"])})
                            break
                    extra = set(got) - set(want)
                    if extra:
                        viol.append({"key": "x-extra", "what": "c then x created %r" % sorted(extra)[:3]})
                # append
                with open(os.path.join(work, "added.txt"), "wb") as f:
                    f.write(b"appended by the command line\n")
                rc, so, se = _cli(["a", A, "added.txt"], work, obs)
                cells.add("tree|a|rc%s" % rc)
                if rc != 0:
                    viol.append({"key": "a-fails/rc=%s" % rc, "what": "py7zr a -> exit %s: %s" % (rc, (so + se)[-200:])})
                else:
                    with py7zr.SevenZipFile(arc) as z:
                        after = z.getnames()
                    if after != libnames + ["added.txt"]:
                        viol.append({"key": "a-disturbs-members", "what": "after 'a': %r, before: %r" % (after[-4:], libnames[-3:])})
            T.unlock(work)
            sample = {"kind": "tree", "entries": len(case["tree"]), "archive_name": case["arcarg"], "odir": case["odir"], "verbose": case["verbose"]}
        elif case["kind"] == "volume":
            work = os.path.join(d, "w")
            os.mkdir(work)
            blob = os.urandom(30000)
            with open(os.path.join(work, "payload.bin"), "wb") as f:
                f.write(blob)
            rc, so, se = _cli(["c", "-v", case["size"], case["arcarg"], "payload.bin"], work, obs)
            obs["volume_sizes_tried"] += 1
            cells.add("volume|%s|%s|rc%s" % (case["suffix"] or "none", _name_class(case["arcarg"]), rc))
            if rc != 0:
                viol.append({"key": "volume-size-rejected/%s" % (case["suffix"] or "no-suffix"), "what": "py7zr c -v %s -> exit %s: %s" % (case["size"], rc, (so + se)[-300:])})
            else:
                V = case["arcarg"] if case["arcarg"].endswith(".7z") else case["arcarg"] + ".7z"
                parts = sorted(glob.glob(os.path.join(work, glob.escape(V) + ".[0-9]*")))
                if not parts:
                    viol.append({"key": "volume-no-files", "what": "py7zr c -v %s %s: no volume files %s.NNNN (directory now holds %r)" % (case["size"], case["arcarg"], V, sorted(os.listdir(work))[:6])})
                else:
                    cat = b"".join(open(p_, "rb").read() for p_ in parts)
                    try:
                        n, got = pz.read_mem(cat)
                        if got.get("payload.bin") != blob:
                            viol.append({"key": "volume-content-differs", "what": "concatenated volumes (-v %s) do not read back" % case["size"]})
                    except Exception as e:
                        viol.append({"key": "volume-unreadable/%s" % type(e).__name__, "what": "concatenated volumes (-v %s): %s" % (case["size"], pz.exc_sig(e))})
            sample = {"kind": "volume", "size": case["size"]}
        elif case["kind"] == "damage":
            a = case["arc"]
            base = bytes.fromhex(a["hex"])
            names = [n for n, _ in a["members"]]
            want = {n: bytes.fromhex(h) for n, h in a["members"]}
            for i, op in enumerate(case["ops"]):
                img = D.apply(base, op)
                intact = _lib_intact(img, names, want)
                obs["damaged_archives_judged"] += 1
                p_ = os.path.join(d, "dmg%d.7z" % i)
                with open(p_, "wb") as f:
                    f.write(img)
                for cmd in ("t", "x"):
                    args = [cmd, p_] + ([os.path.join(d, "o%d" % i)] if cmd == "x" else [])
                    rc, so, se = _cli(args, d, obs)
                    cells.add("damage|%s|%s|%s|rc%s" % (cmd, op[0], "intact" if intact else "not-intact", rc))
                    if rc == "timeout":
                        viol.append({"key": "cli-hangs/%s" % cmd, "what": "%s damaged by %r: py7zr %s did not finish" % (a["label"], op, cmd)})
                    elif intact and rc != 0:
                        viol.append({"key": "nonzero-for-intact/%s" % cmd, "what": "%s with harmless change %r: py7zr %s exits %s: %s" % (a["label"], op, cmd, rc, (so + se)[-200:])})
                    elif not intact and rc == 0:
                        viol.append({"key": "zero-for-damaged/%s/%s" % (cmd, op[0]), "what": "%s damaged by %r (library extraction fails or differs): py7zr %s exits 0" % (a["label"], op, cmd)})
            sample = {"kind": "damage", "archive": a["label"], "ops": case["ops"][:3]}
        elif case["kind"] == "append-bad":
            work = os.path.join(d, "w")
            os.makedirs(os.path.join(work, "tree"))
            with open(os.path.join(work, "tree", "keep.txt"), "wb") as f:
                f.write(b"keep me " * 50)
            with open(os.path.join(work, "new.txt"), "wb") as f:
                f.write(b"new")
            rc, so, se = _cli(["c", "x.7z", "tree"], work, obs)
            p_ = os.path.join(work, "x.7z")
            data = bytearray(open(p_, "rb").read())
            if case["how"] == "flip-end-header":
                data[-5] ^= 0xFF
            elif case["how"] == "flip-start-header":
                data[20] ^= 0xFF
            elif case["how"] == "cut-tail":
                del data[-10:]
            else:
                data = bytearray(b"this is a text file that happens to be called x.7z\n")
            with open(p_, "wb") as f:
                f.write(data)
            rc, so, se = _cli(["a", "x.7z", "new.txt"], work, obs)
            now = open(p_, "rb").read()
            cells.add("append-bad|%s|rc%s" % (case["how"], rc))
            obs["damaged_archives_judged"] += 1
            if rc == 0:
                viol.append({"key": "zero-for-damaged/a/%s" % case["how"], "what": "py7zr a on an archive damaged by %s exits 0; the file now holds %r" % (case["how"], _listing(now))})
            elif now != bytes(data):
                viol.append({"key": "append-modifies-despite-error/%s" % case["how"], "what": "py7zr a exits %s but the file changed" % rc})
            sample = {"kind": "append-bad", "how": case["how"], "rc": rc}
        elif case["kind"] == "volume-zero":
            work = os.path.join(d, "w")
            os.mkdir(work)
            with open(os.path.join(work, "payload.bin"), "wb") as f:
                f.write(os.urandom(3000))
            rc, so, se = _cli(["c", "-v", "0", "vol.7z", "payload.bin"], work, obs)
            left = sorted(os.listdir(work))
            cells.add("volume-zero|rc%s" % rc)
            obs["volume_sizes_tried"] += 1
            if rc == 0 or len(left) > 3:
                viol.append({"key": "volume-size-zero", "what": "py7zr c -v 0 exits %s and leaves %d files" % (rc, len(left))})
            sample = {"kind": "volume-zero", "rc": rc}
        elif case["kind"] == "odd-tree":
            work = os.path.join(d, "w")
            os.makedirs(os.path.join(work, "tree", "sub"))
            for p_ in ("a.txt", "sub/z.txt"):
                with open(os.path.join(work, "tree", p_), "wb") as f:
                    f.write(p_.encode() * 9)
            if case["what"] == "dangling-links":
                os.symlink("a.txt", os.path.join(work, "tree", "good"))
                os.symlink("not-there-yet", os.path.join(work, "tree", "dangling"))
                os.symlink("loop", os.path.join(work, "tree", "loop"))
                rc, so, se = _cli(["c", "o.7z", "tree"], work, obs)
                rc2, so2, se2 = _cli(["x", "o.7z", "out"], work, obs) if rc == 0 else ("-", "", "")
                got = pz.walk_tree(os.path.join(work, "out", "tree")) if os.path.isdir(os.path.join(work, "out", "tree")) else {}
                want = pz.walk_tree(os.path.join(work, "tree"))
                obs["trees_round_tripped"] += 1
                if rc != 0 or rc2 != 0 or {k: (v["kind"], v.get("target"), v.get("crc")) for k, v in got.items()} != {k: (v["kind"], v.get("target"), v.get("crc")) for k, v in want.items()}:
                    viol.append({"key": "c-x-tree-with-dangling-link", "what": "tree with a dangling link and a link to itself: c exits %s (%s), x exits %s; reproduced entries %r of %r" % (
                        rc, (se or so).strip().splitlines()[-1][:120] if (se or so).strip() else "", rc2, sorted(got), sorted(want))})
            else:
                os.mkfifo(os.path.join(work, "tree", "pipe"))
                rc, so, se = _cli(["c", "o.7z", "tree"], work, obs)
                rc2 = "-"
                if rc == 0:
                    # exit 0 says the tree is in the archive: then x must give it back, entry for entry (a FIFO cannot be: so 0 is a lie)
                    viol.append({"key": "c-exits-0-leaving-entry-out", "what": "tree holding a FIFO: py7zr c exits 0; the archive lists %r" % (py7zr.SevenZipFile(os.path.join(work, "o.7z")).getnames(),)})
            cells.add("odd-tree|%s|rc%s" % (case["what"], rc))
            sample = {"kind": "odd-tree", "what": case["what"], "rc": rc}
        elif case["kind"] == "tiny-volumes":
            work = os.path.join(d, "w")
            os.makedirs(os.path.join(work, "tree"))
            for i in range(3):
                with open(os.path.join(work, "tree", "f%d.txt" % i), "wb") as f:
                    f.write(b"member %d " % i * 20)
            rc, so, se = _cli(["c", "-v", case["size"], "vol.7z", "tree"], work, obs)
            obs["volume_sizes_tried"] += 1
            cells.add("tiny-volumes|%s|rc%s" % (case["size"], rc))
            if rc == 0:
                rc2, so2, se2 = _cli(["l", "vol.7z.0001"], work, obs)
                missing = [n for n in ("tree/f0.txt", "tree/f1.txt", "tree/f2.txt") if n not in so2]
                if rc2 != 0 or missing:
                    viol.append({"key": "l-fails-on-own-volumes", "what": "py7zr c -v %s exits 0 (%d volumes); py7zr l vol.7z.0001 exits %s: %s" % (
                        case["size"], len([x for x in os.listdir(work) if x.startswith("vol.7z.")]), rc2, (se2 or so2).strip().splitlines()[-1][:150] if (se2 or so2).strip() else "")})
            sample = {"kind": "tiny-volumes", "size": case["size"], "rc": rc}
        elif case["kind"] == "far-future":
            work = os.path.join(d, "w")
            os.mkdir(work)
            mem = [{"name": "far.txt", "kind": "file", "data": b"x" * 5, "attributes": 0x20, "mtime": 2650467743999999999}]
            from vf.ref7z import writer as W_

            with open(os.path.join(work, "far.7z"), "wb") as f:
                f.write(W_.build(mem, {"folders": [{"n": 1, "chain": [{"m": "COPY"}], "crc": "sub"}], "header": "raw"}))
            res = {}
            for tz in ("UTC", "Asia/Tokyo", "America/New_York"):
                os.environ["TZ"] = tz
                try:
                    rc, so, se = _cli(["l", "far.7z"], work, obs)
                finally:
                    os.environ.pop("TZ", None)
                res[tz] = rc
                if rc != 0 or "far.txt" not in so:
                    viol.append({"key": "l-fails-on-far-future-time", "what": "member dated 9999-12-31 23:59:59 UTC, TZ=%s: py7zr l exits %s: %s" % (tz, rc, (se or so).strip().splitlines()[-1][:150] if (se or so).strip() else "")})
            cells.add("far-future|%r" % sorted(res.items()))
            sample = {"kind": "far-future", "rc": res}
        elif case["kind"] == "fixture":
            for cmd in ("t", "x"):
                args = [cmd, case["path"]] + ([os.path.join(d, "fx")] if cmd == "x" else [])
                rc, so, se = _cli(args, d, obs)
                cells.add("fixture|%s|%s|rc%s" % (cmd, case["expect"], rc))
                base = os.path.basename(case["path"])
                if case["expect"] == "ok" and rc != 0:
                    viol.append({"key": "nonzero-for-intact/%s" % cmd, "what": "%s: py7zr %s exits %s: %s" % (base, cmd, rc, (so + se)[-200:])})
                if case["expect"] != "ok" and rc == 0:
                    viol.append({"key": "zero-for-%s/%s" % (case["expect"], cmd), "what": "%s (%s): py7zr %s exits 0" % (base, case["expect"], cmd)})
            obs["damaged_archives_judged"] += 1
            sample = {"kind": "fixture", "file": os.path.basename(case["path"]), "expect": case["expect"]}
        else:
            rc, so, se = _cli(["i"], d, obs)
            cells.add("info|rc%s" % rc)
            if rc not in (0, None):
                viol.append({"key": "i-fails/rc=%s" % rc, "what": "py7zr i exits %s" % rc})
            if "LZMA2" not in so:
                viol.append({"key": "i-output", "what": "py7zr i does not list codecs"})
            sample = {"kind": "info"}
    if viol:
        seen = {}
        for v in viol:
            seen.setdefault(v["key"], v)
        return K.result("violated", violations=list(seen.values()), cells=sorted(cells), obs=obs, sample=sample)
    return K.result("held", cells=sorted(cells), obs=obs, sample=sample)
