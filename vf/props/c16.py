"""C16 — member names are kept relative on write.
Differential of the real gate against an independent 12-line definition, exhaustively over a
component alphabet; then real writestr/writef/write/writeall sessions."""
import io
import itertools
import os
import random
import re

from vf.core import pz
from vf.props import common as K

LEVEL = "exploration"
CASE_TIMEOUT = 600
CPU_BUDGET = 500
REQUIRED_OBS = ["gate_evaluations", "sessions"]
RULE = ("(a) every name of 1..N components over {a, b, .., ., '', c:, the components of check_archive_path's own probe directory} x "
        "leading {none, /, //} x trailing {none, /}: real check_archive_path verdict vs independent definition (split on '/', skip ''/'.', "
        "'..' pops, reject iff absolute or depth < 0); (b) accepted/rejected classes driven through real writestr/writef sessions: "
        "ValueError, archive unchanged; names with both separators mixed ('\\' is a separator for every reader of the archive), with NUL, lone surrogates and "
        "65534..65537 UTF-16 units (not representable in the name table: must be rejected); (c) write/writeall of absolute and relative sources, "
        "of files whose names start with '\\' or 'c:\\' and of a file with an undecodable name: no stored name starts with a separator or "
        "drive prefix, the undecodable name is refused by the call and the session survives. Cell = (gate|prefix|ncomponents) or (session kind, verdict class).")
EXHAUSTIVE = {"quick": "all names of <= 5 components over the alphabet (gate level)", "thorough": "all names of <= 6 components (gate level)"}


def representable(name: str) -> bool:
    """The 7z name table holds NUL-terminated UTF-16 strings; readers stop after 65536 code units."""
    try:
        units = len(name.encode("utf-16-le")) // 2
    except UnicodeEncodeError:
        return False
    return "\x00" not in name and units < 65536


def spec_accepts(name: str) -> bool:
    """Independent definition: the name as a reader sees it ('\\' is a separator in stored names: py7zr's own reader,
    like 7-Zip, maps it to '/'); resolve '..' lexically against a virtual root; a name the table cannot hold is rejected."""
    if not representable(name):
        return False
    # what the archive will hold: '/'-separated components without the empty and '.' ones (a leading '/' kept) ...
    stored = ("/" if name.startswith("/") else "") + "/".join(c for c in name.split("/") if c not in ("", "."))
    # ... and what a reader makes of it
    name = stored.replace("\\", "/")
    if name.startswith("/"):
        return False
    depth = 0
    for comp in name.split("/"):
        if comp in ("", "."):
            continue
        if comp == "..":
            depth -= 1
            if depth < 0:
                return False
        else:
            depth += 1
    return True


def probe_components():
    """The components of the dummy parent directory check_archive_path uses, read from its source
    at run time (a name may re-enter that directory after climbing out: '../<last>/x')."""
    import inspect

    from py7zr import helpers

    src = inspect.getsource(helpers.check_archive_path)
    comps = []
    for m in re.finditer(r'Path\("(/[^"]+)"\)', src):
        comps += [c for c in m.group(1).split("/") if c]
    return comps


def cases(rng, tier):
    out = []
    maxn = 5 if tier == "quick" else 6
    # the exhaustive gate enumeration is split by (prefix, first component, n) so that workers share it
    for n in range(1, maxn + 1):
        for lead in ("", "/", "//"):
            for first in range(8):
                out.append({"kind": "gate", "n": n, "lead": lead, "first": first})
    for n in range(1, 5 if tier == "quick" else 6):
        out.append({"kind": "gate-bs", "n": n})
    for i in range(200 if tier == "quick" else 4000):
        out.append({"kind": "session", "seed": rng.getrandbits(32)})
    for i in range(40 if tier == "quick" else 600):
        out.append({"kind": "fswrite", "seed": rng.getrandbits(32)})
    return out


def _alphabet():
    pc = probe_components()
    last = pc[-1] if pc else "zz"
    prev = pc[-2] if len(pc) > 1 else "yy"
    return ["a", "b", "..", ".", "", "c:", last, prev]


def run_case(case):
    from py7zr.helpers import check_archive_path

    viol, obs = [], {"gate_evaluations": 0, "sessions": 0}
    alph = _alphabet()
    if case["kind"] == "gate":
        n = case["n"]
        firsts = [alph[case["first"]]]
        dis = 0
        for rest in itertools.product(alph, repeat=n - 1):
            comps = firsts + list(rest)
            for trail in ("", "/"):
                name = case["lead"] + "/".join(comps) + trail
                if name == "":
                    continue
                try:
                    got = bool(check_archive_path(name))
                except Exception as e:
                    viol.append({"key": "gate-raises/%s" % type(e).__name__, "what": "check_archive_path(%r) raised %s" % (name, e)})
                    continue
                obs["gate_evaluations"] += 1
                want = spec_accepts(name)
                if got != want:
                    dis += 1
                    pc = probe_components()
                    via_probe = any(c in pc for c in comps)
                    key = "gate/%s-%s" % ("accepts-escaping" if got else "rejects-inside", "via-probe-dir-name" if via_probe else "plain")
                    if len(viol) < 30:
                        viol.append({"key": key, "what": "check_archive_path(%r) = %s, independent definition says %s" % (name, got, want)})
        obs["gate_disagreements"] = dis
        cell = "gate|%s|n%d|first=%s" % (case["lead"] or "-", n, firsts[0] or "''")
        sample = {"kind": "gate", "n": n, "lead": case["lead"], "first": firsts[0], "evaluations": obs["gate_evaluations"]}
    elif case["kind"] == "gate-bs":
        # both separators mixed: components x separators x leading / trailing separator
        n = case["n"]
        comps_a = ["a", "..", ".", "", "c:"]
        dis = 0
        for comps in itertools.product(comps_a, repeat=n):
            for seps in itertools.product("/\\", repeat=n - 1):
                body = comps[0] + "".join(s_ + c for s_, c in zip(seps, comps[1:]))
                for lead in ("", "/", "\\", "\\\\", "/\\", "./", ".//./", "./\\", "././\\\\"):
                    for trail in ("", "/", "\\"):
                        name = lead + body + trail
                        if name == "":
                            continue
                        try:
                            got = bool(check_archive_path(name))
                        except Exception as e:
                            viol.append({"key": "gate-raises/%s" % type(e).__name__, "what": "check_archive_path(%r) raised %s" % (name, e)})
                            continue
                        obs["gate_evaluations"] += 1
                        want = spec_accepts(name)
                        if got != want:
                            dis += 1
                            if len(viol) < 30:
                                viol.append({"key": "gate/%s-backslash" % ("accepts-escaping" if got else "rejects-inside"), "what": "check_archive_path(%r) = %s, independent definition says %s" % (name, got, want)})
        obs["gate_disagreements"] = dis
        cell = "gate-bs|n%d" % n
        sample = {"kind": "gate-bs", "n": n, "evaluations": obs["gate_evaluations"]}
    elif case["kind"] == "session":
        import py7zr

        r = random.Random(case["seed"])
        names = []
        for _ in range(r.randint(1, 5)):
            style = r.random()
            if style < 0.15:
                # names the table cannot hold, or that a reader sees differently from the host's path flavour
                base = "/".join(r.choice(["a", "b", "etc", "x"]) for _ in range(r.randint(1, 3)))
                nm = r.choice([
                    "a\x00/" + base, base + "\x00", "\x00", "bad\ud800" + base, base + "/\udc80x",
                    "a" * 65536 + "/" + base, "a" * 65535, "a" * 65534 + "/b", "\U0001F600" * 32768, "\U0001F600" * 32767 + "b",
                    "\\" + base.replace("/", "\\"), "./\\" + base, ".//./\\\\srv/" + base, "..\\..\\" + base, "a\\..\\..\\" + base, "a\\" + base, "c:\\" + base, base + "\\..\\..", "\\\\srv\\share\\" + base])
            elif style < 0.6:
                n = r.randint(1, 6)
                nm = r.choice(["", "", "/", "//"]) + "/".join(r.choice(alph) for _ in range(n)) + r.choice(["", "", "/"])
            else:
                from vf.gen import basic as G

                nm = "/".join(G.component(r, maxlen=6) for _ in range(r.randint(1, 4)))
                if r.random() < 0.3:
                    nm = r.choice(["../", "/", "a/../../", "./", "x/../"]) + nm
            if nm:
                names.append(nm)
        buf = io.BytesIO()
        accepted = []
        with py7zr.SevenZipFile(buf, "w", filters=[{"id": py7zr.FILTER_COPY}]) as z:
            for i, nm in enumerate(names):
                data = b"data-%d" % i
                want = spec_accepts(nm)
                try:
                    if i % 2:
                        z.writestr(data, nm)
                    else:
                        z.writef(io.BytesIO(data), nm)
                    ok = True
                except ValueError:
                    ok = False
                except Exception as e:
                    viol.append({"key": "session/wrong-exception/%s" % type(e).__name__, "what": "name %r rejected with %s instead of ValueError" % (nm, pz.exc_sig(e))})
                    ok = False
                if ok != want:
                    pc = probe_components()
                    via = any(c in pc for c in nm.split("/"))
                    viol.append({"key": "session/%s-%s" % ("accepts-escaping" if ok else "rejects-inside", "via-probe-dir-name" if via else "plain"),
                                 "what": "writestr/writef %s name %r; independent definition says %s" % ("accepted" if ok else "rejected", nm, "accept" if want else "reject")})
                if ok:
                    accepted.append((nm, data))
        obs["sessions"] += 1
        # the archive holds exactly the accepted members (rejections changed nothing)
        try:
            gn, got = pz.read_mem(buf.getvalue())
            import pathlib

            want_names = [pathlib.PurePosixPath(n).as_posix().replace("\\", "/") for n, _ in accepted]
            if gn != want_names:
                viol.append({"key": "session/archive-changed-by-rejection", "what": "archive lists %r, accepted calls were %r" % (gn, want_names)})
            for nm in gn:
                if nm.startswith("/"):  # on POSIX 'c:' is an ordinary component (C01 lists it as a legal name part)
                    viol.append({"key": "session/absolute-name-stored", "what": "archive contains absolute name %r" % nm})
                if not spec_accepts(nm):
                    viol.append({"key": "session/escaping-name-stored", "what": "archive contains a name that climbs above the root: %r" % nm})
        except Exception as e:
            viol.append({"key": "session/readback-raises/%s" % type(e).__name__, "what": "reading the session's archive raised %s" % pz.exc_sig(e)})
        cell = "session|acc%d|rej%d" % (len(accepted), len(names) - len(accepted))
        sample = {"kind": "session", "names": names[:5], "accepted": len(accepted)}
    else:
        import py7zr

        r = random.Random(case["seed"])
        with pz.scratch("vf-c16-") as d:
            root = os.path.join(d, "w", "x")
            os.makedirs(os.path.join(root, "sub", "deep"))
            for p in ("f.txt", "sub/g.txt", "sub/deep/h.txt"):
                with open(os.path.join(root, p), "wb") as f:
                    f.write(p.encode())
            arc = os.path.join(d, "o.7z")
            # legal POSIX file names that a reader of the archive takes for something else
            os.makedirs(os.path.join(root, "\\etc"))
            for p in ("\\abs.txt", "c:\\win.txt", "\\etc/passwd", "sub/\\lead"):
                with open(os.path.join(root, p), "wb") as f:
                    f.write(p.encode())
            # directories whose names end in '.': behind the prefix that is stripped from them pathlib drops a './', and what that shielded comes to the front (fifth hunt)
            for dn in ("c:.", "..\\.", "\\."):
                os.makedirs(os.path.join(root, dn))
                with open(os.path.join(root, dn, "\\evil.txt"), "wb") as f:
                    f.write(b"evil")
                with open(os.path.join(root, dn, "plain.txt"), "wb") as f:
                    f.write(b"plain")
            with open(os.path.join(root, "up.txt"), "wb") as f:
                f.write(b"up")
            style = r.choice(["abs-file", "abs-dir", "rel-dir", "rel-file", "dotdot-rel", "abs-pathobj", "dot-dir", "bs-file", "bs-drive", "bs-dir", "bs-pathobj", "bs-shielded", "undecodable-name",
                              "dotted-dir-file", "dotted-dir-file", "dotted-dir-up", "dotted-dir-tree"])
            cwd = os.getcwd()
            try:
                os.chdir(os.path.join(d, "w"))
                with py7zr.SevenZipFile(arc, "w", filters=[{"id": py7zr.FILTER_COPY}]) as z:
                    import pathlib

                    if style == "abs-file":
                        z.write(os.path.join(root, "f.txt"))
                    elif style == "abs-dir":
                        z.writeall(root)
                    elif style == "rel-dir":
                        z.writeall("x")
                    elif style == "rel-file":
                        z.write("x/sub/g.txt")
                    elif style == "dotdot-rel":
                        os.chdir(os.path.join(root, "sub"))
                        z.writeall("../sub/deep")
                    elif style == "abs-pathobj":
                        z.writeall(pathlib.Path(root) / "sub")
                    elif style == "bs-file":
                        os.chdir(root)
                        z.write("\\abs.txt")
                    elif style == "bs-drive":
                        os.chdir(root)
                        z.write("c:\\win.txt")
                    elif style == "bs-dir":
                        os.chdir(root)
                        z.writeall("\\etc")
                    elif style == "bs-shielded":
                        os.chdir(root)
                        z.write("./\\abs.txt")
                        z.write(".//./c:\\win.txt")
                    elif style == "bs-pathobj":
                        os.chdir(root)
                        z.write(pathlib.Path("\\abs.txt"))
                    elif style in ("dotted-dir-file", "dotted-dir-up", "dotted-dir-tree"):
                        os.chdir(root)
                        dn = r.choice(["c:.", "..\\.", "\\."])
                        z.write("f.txt")
                        try:
                            if style == "dotted-dir-file":
                                z.write(dn + "/\\evil.txt")
                            elif style == "dotted-dir-up":
                                z.write(dn + "/../up.txt")
                            else:
                                z.writeall(dn)
                        except ValueError:
                            # refusing such a source is an answer too: nothing absolute is stored then
                            obs["dotted_sources_refused"] = obs.get("dotted_sources_refused", 0) + 1
                    elif style == "undecodable-name":
                        # a file whose name is not valid UTF-8 comes as a str with a lone surrogate: it cannot be stored.
                        # The call must say so; the session and its other members must survive
                        os.chdir(root)
                        bad = os.fsdecode(b"caf\xe9.txt")
                        with open(bad, "wb") as f:
                            f.write(b"x")
                        z.write("f.txt")
                        try:
                            z.write(bad)
                            viol.append({"key": "fswrite/undecodable-name-accepted", "what": "write(%r) returned normally; the name cannot be encoded as UTF-16" % bad})
                        except ValueError:
                            obs["undecodable_names_refused"] = obs.get("undecodable_names_refused", 0) + 1
                    else:
                        os.chdir(root)
                        z.writeall(".")
            except Exception as e:
                viol.append({"key": "fswrite/raises/%s/%s" % (style, type(e).__name__), "what": "write/writeall (%s) raised %s" % (style, pz.exc_sig(e))})
            finally:
                os.chdir(cwd)
            obs["sessions"] += 1
            if not viol:
                with py7zr.SevenZipFile(arc) as z:
                    gn = z.getnames()
                if not gn:
                    viol.append({"key": "fswrite/empty/%s" % style, "what": "no member stored"})
                for nm in gn:
                    if nm.startswith(("/", "\\")) or re.match(r"^[a-zA-Z]:", nm) or nm == ".." or nm.startswith("../"):
                        viol.append({"key": "fswrite/absolute-name-stored/%s" % style, "what": "write/writeall (%s) stored absolute name %r" % (style, nm)})
                obs["fs_names_checked"] = len(gn)
        cell = "fswrite|" + style
        sample = {"kind": "fswrite", "style": style}
    if viol:
        seen = {}
        for v in viol:
            seen.setdefault(v["key"], v)
        return K.result("violated", violations=list(seen.values()), cell=cell, obs=obs, sample=sample)
    return K.result("held", cell=cell, obs=obs, sample=sample)
