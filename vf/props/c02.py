"""C02 — directory tree round trip with metadata (writeall -> extractall; shutil front ends)."""
import json
import os
import posixpath
import shutil
import stat
import sys
import traceback

from vf.core import pz
from vf.gen import basic as G
from vf.gen import trees as T
from vf.props import common as K

LEVEL = "exploration"
CASE_TIMEOUT = 300
CPU_BUDGET = 150
REQUIRED_OBS = ["trees_round_tripped", "entries_compared", "modes_compared", "mtimes_compared"]
RULE = ("generated trees (depth <= 5; empty and non-empty directories; files of size 0..; relative symlinks to files and directories, sideways and "
        "upward-but-inside; Unicode names; file modes 0o400..0o777, directory modes 0o500..0o777; mtimes 1970..2100 with 100 ns fractions) x entry point "
        "{writeall+extractall, pack_7zarchive+unpack_7zarchive} x arcname None/given x source absolute/relative/'../src' from a sibling directory/'src/../../work/src'/'.' from inside the tree/absolute with the working directory inside "
        "the tree x extraction into a given directory / into the current directory x link targets also spelled './t', 't/', 'a//t' x dereference off/on x default filters / "
        "password; the tree written into a fresh archive, after a member given as data, or appended to an existing archive. Half of the cases run as uid 65534 (root ignores permission bits). Oracle: lstat/readlink/read walk of the extracted tree vs the source: "
        "path set, kinds, bytes, link text, S_IMODE of files and directories, mtime within 5 microseconds. Cell = (entry point, arcname, source form, "
        "deref, uid, kinds present, has read-only dir).")
ASSUMPTIONS = ["top-level names that begin with a drive prefix or a backslash are not archived from inside the tree (source '.'): C16 has such prefixes stripped",
               "symlink modes/mtimes are not compared (the statement restricts modes and times to files and directories)",
               "dereference=True only on trees whose directory links do not point at an ancestor (no finite dereferenced image otherwise)"]


def cases(rng, tier):
    n = 150 if tier == "quick" else 3000
    out = []
    for i in range(n):
        deref = rng.random() < 0.25
        tree = T.tree(rng, max_entries=rng.choice([3, 6, 12, 16]), max_len=30000, links=True, small_alphabet=(rng.random() < 0.2))
        if deref and (T.has_dir_link_cycle(tree) or not T.deref_image_is_finite(tree)):
            deref = False  # an upward or mutually recursive directory link has no finite dereferenced image
        out.append({"tree": tree, "entry": "shutil" if rng.random() < 0.15 and not deref else rng.choice(["writeall", "writeall", "writeall", "append", "after-writestr"]), "arcname": rng.choice([None, None, "arc", "deep/arc name"]),
                    "source": rng.choice(["abs", "rel", "rel", "dot", "cwd-inside", "dotdot", "inner-dotdot"]), "extract": rng.choice(["dst", "dst", "cwd"]), "deref": deref, "password": rng.choice([None, None, None, "pässwörd"]),
                    "uid": 65534 if i % 2 else 0, "chain": (G.chain(rng, aes=False) if rng.random() < 0.3 else None)})
        if not deref:
            _add_link_through_link(rng, tree)
    # the hunter's own tree (fourth hunt): a link spelled through another link, archived from outside and from inside
    for source in ("rel", "dot", "dotdot"):
        t = [{"path": "d1", "kind": "dir", "mode": 0o755, "mtime_ns": 1_500_000_000_000_000_000}, {"path": "d1/d2", "kind": "dir", "mode": 0o755, "mtime_ns": 1_500_000_000_000_000_000},
             {"path": "x", "kind": "file", "mode": 0o644, "mtime_ns": 1_500_000_000_000_000_000, "content": {"len": 40, "tex": "text", "seed": 3}},
             {"path": "l", "kind": "link", "target": "d1/d2"}, {"path": "m", "kind": "link", "target": "l/../../x"}]
        out.append({"tree": t, "entry": "writeall", "arcname": None, "source": source, "extract": "dst", "deref": False, "password": None, "uid": 0, "chain": None})
    import re

    for c in out:
        # C16 has write()/writeall() strip a drive prefix or leading separator from the names they store: a tree whose top-level
        # names read 'c:...' or start with a backslash is, for source '.', outside what this property can promise
        if c["source"] == "dot" and any(re.match(r"^([A-Za-z]:|\\\\)", e["path"]) for e in c["tree"]):
            c["source"] = "rel"
    return out


def _add_link_through_link(rng, tree):
    """With a link L to a directory D of the tree and a file x: one more link, next to L, whose target goes *through* L and climbs
    back from D to the root of the tree: 'L/../(depth of D times)/x'. It exists inside the tree; collapsing '..' in its spelling
    would put it elsewhere (found by a bug hunt)."""
    import posixpath

    dirs = {e["path"] for e in tree if e["kind"] == "dir"}
    files = [e["path"] for e in tree if e["kind"] == "file"]
    paths = {e["path"] for e in tree}
    cands = []
    for e in tree:
        if e["kind"] == "link" and not e["target"].startswith("/"):
            res = posixpath.normpath(posixpath.join(posixpath.dirname(e["path"]), e["target"]))
            if res in dirs and ".." not in res.split("/") and ".." not in e["target"].split("/"):
                # every component of the link's own directory must be a real directory (not itself reached through a link)
                cands.append((e, res))
    if not cands or not files or rng.random() > 0.5:
        return
    e, res = rng.choice(cands)
    x = rng.choice(files)
    name = posixpath.join(posixpath.dirname(e["path"]), "via-" + posixpath.basename(e["path"]))
    if name in paths:
        return
    tree.append({"path": name, "kind": "link", "target": posixpath.basename(e["path"]) + "/" + "../" * len(res.split("/")) + x})


def worker_init():
    # touch everything that is imported lazily, before a child drops privileges
    import encodings.utf_16_le  # noqa
    import encodings.idna  # noqa
    import psutil  # noqa
    import resource  # noqa
    import io

    import py7zr

    b = io.BytesIO()
    with py7zr.SevenZipFile(b, "w", password="x") as z:
        z.writestr(b"warm", "w")
    with py7zr.SevenZipFile(io.BytesIO(b.getvalue()), password="x") as z:
        z.extractall(factory=py7zr.io.BytesIOFactory(100))
    py7zr.properties.get_memory_limit()


def expected_image(entries, deref):
    """path -> record, relative to the tree root ('' = the root itself is not included)."""
    by = {e["path"]: e for e in entries}
    out = {}

    def resolve(p, depth=0):
        e = by[p]
        if e["kind"] == "link" and depth < 20:
            tgt = posixpath.normpath(posixpath.join(posixpath.dirname(p), e["target"]))
            return resolve(tgt, depth + 1)
        return e

    def emit(dst, e):
        if e["kind"] == "file":
            out[dst] = {"kind": "file", "data": G.materialise(e["content"]), "mode": e["mode"], "mtime_ns": e["mtime_ns"]}
        elif e["kind"] == "dir":
            out[dst] = {"kind": "dir", "mode": e["mode"], "mtime_ns": e["mtime_ns"]}
            for c in entries:
                if posixpath.dirname(c["path"]) == e["path"]:
                    sub = posixpath.join(dst, posixpath.basename(c["path"]))
                    if c["kind"] == "link":
                        if deref:
                            emit(sub, resolve(c["path"]))
                        else:
                            out[sub] = {"kind": "link", "target": c["target"]}
                    else:
                        emit(sub, c)

    for e in entries:
        if "/" not in e["path"]:
            if e["kind"] == "link":
                if deref:
                    emit(e["path"], resolve(e["path"]))
                else:
                    out[e["path"]] = {"kind": "link", "target": e["target"]}
            else:
                emit(e["path"], e)
    return out


def _body(case, d):
    """Runs as the target uid. Returns dict(viol=[...], obs={...})."""
    import py7zr

    viol, obs = [], {k: 0 for k in REQUIRED_OBS}
    src_parent = os.path.join(d, "work")
    os.mkdir(src_parent)
    src = os.path.join(src_parent, "src")
    T.make(src, case["tree"])
    root_mode, root_mtime = 0o755, 1_600_000_000_123_456_700
    os.utime(src, ns=(root_mtime, root_mtime))
    os.chmod(src, root_mode)
    arc = os.path.join(d, "t.7z")
    dst = os.path.join(d, "out")
    cwd0 = os.getcwd()
    try:
        os.chdir(src_parent)
        srcarg = src if case["source"] in ("abs", "cwd-inside") else "src"
        if case["source"] == "inner-dotdot" and case["entry"] != "shutil":
            # the tree named through itself and back: the same directory for the kernel, '..' in the middle of the spelling
            srcarg = "src/../../work/src"
        if case["source"] == "dotdot" and case["entry"] != "shutil":
            # the tree lies beside the working directory
            os.mkdir(os.path.join(src_parent, "elsewhere"))
            os.chdir(os.path.join(src_parent, "elsewhere"))
            srcarg = "../src"
        if case["source"] == "dot" and case["entry"] != "shutil":
            # from inside the tree: the tree is '.', its entries have no common top (unless an arcname is given)
            os.chdir(src)
            srcarg = "."
        elif case["source"] == "cwd-inside" and case["entry"] != "shutil":
            # the working directory is some directory of the tree, the tree is named by its absolute path
            inner = sorted(e["path"] for e in case["tree"] if e["kind"] == "dir" and (e["mode"] & 0o500) == 0o500)
            if inner:
                os.chdir(os.path.join(src, inner[len(inner) // 2]))
        if case["entry"] == "shutil":
            try:
                shutil.register_archive_format("7zip", py7zr.pack_7zarchive, description="7zip archive")
                shutil.register_unpack_format("7zip", [".7z"], py7zr.unpack_7zarchive)
            except Exception:
                pass
            made = shutil.make_archive(os.path.join(d, "t"), "7zip", root_dir=src_parent, base_dir="src")
            shutil.unpack_archive(made, dst)
            top = os.path.join(dst, "src")
        else:
            filters = G.resolve_chain(case["chain"]) if case["chain"] else None
            try:
                if case["entry"] == "append":
                    # the tree is added to an archive that already holds a member given as data (no source path)
                    with py7zr.SevenZipFile(arc, "w", filters=filters, password=case["password"]) as z:
                        z.writestr(b"there before", "pre-existing.txt")
                    with py7zr.SevenZipFile(arc, "a", filters=filters, password=case["password"], dereference=case["deref"]) as z:
                        z.writeall(srcarg, arcname=case["arcname"])
                elif case["entry"] == "after-writestr":
                    with py7zr.SevenZipFile(arc, "w", filters=filters, password=case["password"], dereference=case["deref"]) as z:
                        z.writestr(b"there before", "pre-existing.txt")
                        z.writeall(srcarg, arcname=case["arcname"])
                else:
                    with py7zr.SevenZipFile(arc, "w", filters=filters, password=case["password"], dereference=case["deref"]) as z:
                        z.writeall(srcarg, arcname=case["arcname"])
            except py7zr.exceptions.UnsupportedCompressionMethodError:
                return {"rejected": True}
            with py7zr.SevenZipFile(arc, "r", password=case["password"]) as z:
                if case.get("extract") == "cwd":
                    # into the current directory, as 'py7zr x archive' does
                    os.makedirs(dst, exist_ok=True)
                    os.chdir(dst)
                    z.extractall()
                else:
                    z.extractall(dst)
            if case["arcname"] is not None:
                top = os.path.join(dst, case["arcname"])
            elif case["source"] in ("abs", "cwd-inside"):
                top = os.path.join(dst, src.lstrip("/"))
            elif case["source"] == "inner-dotdot":
                top = os.path.join(dst, "work", "src")
            elif case["source"] == "dot":
                top = dst
            else:
                top = os.path.join(dst, "src")
    finally:
        os.chdir(cwd0)
    want = expected_image(case["tree"], case["deref"])
    if case["entry"] in ("append", "after-writestr"):
        pre = os.path.join(dst, "pre-existing.txt")
        if not os.path.isfile(pre) or open(pre, "rb").read() != b"there before":
            viol.append({"key": "earlier-member-lost/%s" % case["entry"], "what": "the member written before the tree (%s) is missing or changed after extraction" % case["entry"]})
    got = pz.walk_tree(top) if os.path.isdir(top) else None
    if got is None:
        viol.append({"key": "root-missing", "what": "extracted tree root %r does not exist" % os.path.relpath(top, d)})
        return {"viol": viol, "obs": obs}
    obs["trees_round_tripped"] = 1
    # root directory itself
    rootless = case["source"] == "dot" and case["arcname"] is None and case["entry"] != "shutil"
    if rootless:
        got.pop("pre-existing.txt", None)
    st = os.lstat(top)
    if rootless:
        pass  # '.' itself has no entry: the destination directory is the tree root
    elif stat.S_IMODE(st.st_mode) != root_mode:
        viol.append({"key": "mode/dir", "what": "tree root: mode %o, source %o" % (stat.S_IMODE(st.st_mode), root_mode)})
    if not rootless and abs(st.st_mtime_ns - root_mtime) > 5000:
        viol.append({"key": "mtime/dir", "what": "tree root: mtime differs by %d ns" % (st.st_mtime_ns - root_mtime)})
    missing = sorted(set(want) - set(got))
    extra = sorted(set(got) - set(want))
    if missing:
        kinds = sorted({want[p]["kind"] for p in missing})
        viol.append({"key": "missing/%s" % ",".join(kinds), "what": "not extracted: %r" % missing[:4]})
    if extra:
        viol.append({"key": "extra/%s" % got[extra[0]]["kind"], "what": "extracted but not in the source: %r" % extra[:4]})
    for p in sorted(set(want) & set(got)):
        w, g = want[p], got[p]
        obs["entries_compared"] += 1
        if w["kind"] != g["kind"]:
            viol.append({"key": "kind/%s-as-%s" % (w["kind"], g["kind"]), "what": "%r: %s in the source, %s extracted" % (p, w["kind"], g["kind"])})
            continue
        if w["kind"] == "link":
            if g["target"] != w["target"]:
                viol.append({"key": "link-target", "what": "%r: link text %r, source %r" % (p, g["target"], w["target"])})
            continue
        if w["kind"] == "file" and g["data"] != w["data"]:
            viol.append({"key": "bytes", "what": "%r: %d bytes extracted, %d in the source" % (p, len(g["data"]), len(w["data"]))})
        obs["modes_compared"] += 1
        if g["mode"] != w["mode"]:
            viol.append({"key": "mode/%s" % w["kind"], "what": "%r (%s): mode %o extracted, %o in the source" % (p, w["kind"], g["mode"], w["mode"])})
        obs["mtimes_compared"] += 1
        if abs(g["mtime_ns"] - w["mtime_ns"]) > 5000:
            viol.append({"key": "mtime/%s" % w["kind"], "what": "%r (%s): mtime differs by %d ns (source %d)" % (p, w["kind"], g["mtime_ns"] - w["mtime_ns"], w["mtime_ns"])})
    return {"viol": viol, "obs": obs}


def _as_uid(uid, fn):
    """Run fn() in a forked child under uid/gid; result comes back as JSON over a pipe."""
    r, w = os.pipe()
    pid = os.fork()
    if pid == 0:
        try:
            os.close(r)
            if uid:
                # the harness's own directory may not be traversable for the unprivileged uid (a snapshot under
                # /root): _body returns to its starting directory at the end, so start from one every uid can enter
                os.chdir("/")
                os.setgroups([])
                os.setgid(uid)
                os.setuid(uid)
            try:
                res = fn()
            except BaseException as e:
                res = {"exc": "%s: %s" % (type(e).__name__, e), "trace": traceback.format_exc()[-1500:]}
            for v in (res.get("viol") or []):
                v.pop("data", None)
            os.write(w, json.dumps(res).encode())
        finally:
            os._exit(0)
    os.close(w)
    buf = b""
    while True:
        chunk = os.read(r, 65536)
        if not chunk:
            break
        buf += chunk
    os.close(r)
    os.waitpid(pid, 0)
    if not buf:
        return {"exc": "child died without a result"}
    return json.loads(buf)


def run_case(case):
    with pz.scratch("vf-c02-") as d:
        os.chmod(d, 0o777)
        if case["uid"]:
            os.chown(d, case["uid"], case["uid"])
        try:
            res = _as_uid(case["uid"], lambda: _body(case, d))
        finally:
            T.unlock(d)
    kinds = sorted({e["kind"] for e in case["tree"]})
    ro = any(e["kind"] == "dir" and not (e["mode"] & 0o200) for e in case["tree"])
    cell = "|".join([case["entry"], "arc" if case["arcname"] else "-", case["source"], "deref" if case["deref"] else "-", "uid%d" % case["uid"], ",".join(kinds), "ro-dir" if ro else "-"])
    sample = {"entries": [(e["path"][:24], e["kind"], oct(e.get("mode", 0))) for e in case["tree"]][:6], "entry": case["entry"], "arcname": case["arcname"], "deref": case["deref"], "uid": case["uid"]}
    if res.get("rejected"):
        return K.result("held", cell="rejected", nontrivial=False, obs={"rejected_by_writer": 1})
    if "exc" in res:
        exc = res["exc"]
        if exc.startswith(("ImportError", "ModuleNotFoundError", "LookupError")) and case["uid"]:
            return K.result("inconclusive", key="harness/late-import-under-dropped-uid", what=exc[:200])
        return K.result("violated", key="raises/%s/uid%d%s" % (exc.split(":")[0], case["uid"], "/deref" if case["deref"] else ""), what="round trip raised %s" % exc[:300], cell=cell, sample=sample,
                        detail={"trace": res.get("trace")})
    if res["viol"]:
        seen = {}
        for v in res["viol"]:
            seen.setdefault(v["key"], v)
        return K.result("violated", violations=list(seen.values()), cell=cell, obs=res["obs"], sample=sample)
    return K.result("held", cell=cell, obs=res["obs"], sample=sample)


def on_abnormal(case, kind, info):
    if kind in ("cpu-budget", "deadlock"):
        return K.result("violated", key="hang/" + kind, what="tree round trip did not finish (%s)" % kind)
    return None
