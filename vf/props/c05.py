"""C05 — any input terminates in bounded time and memory; the interpreter survives.
Resource/step monitors per call sequence: CPU-time budget (load independent), peak RSS, exception class, exit status."""
import io
import itertools
import os
import random
import shutil
import sys
import threading
import time
import traceback

from vf.core import pz
from vf.gen import damage as D
from vf.props import common as K
from vf.props import corpus
from vf.ref7z import writer as W

LEVEL = "fault_enumeration"
CASE_TIMEOUT = 240
CPU_BUDGET = 120
RLIMIT_AS = 5 << 30
REQUIRED_OBS = ["call_sequences_run", "calls_returned_or_raised"]
SEQ_CPU_BUDGET = 2.0       # seconds of CPU for one call sequence on an input of at most a few KiB (valid corpus: < 0.05 s)
RSS_BUDGET_KB = 256 * 1024  # + 4 x (input + legitimately declared output), which is < 1 MiB for this corpus
RULE = ("inputs: (a) corpus archives damaged (bit flips, truncations, overwrites, inserts/deletes, splices); (b) structure-aware mutation of the "
        "reference writer's header token stream (every NUMBER replaced by each of {0,1,2,0x7f,0x80,0xff,0xffff,2^31,2^32,2^63,2^64-1}, property-id "
        "bytes replaced, single-bit flips and 00/ff in the leading/last bytes of every raw blob (method ids, coder properties, vectors, names), header ranges deleted/duplicated) and hostile coder properties for every codec, all CRCs re-sealed so the parser is "
        "entered; (c) wrong/missing passwords; (f) hand-crafted headers (counts of 2^27..2^40 with the section that would back them left out; tables of 30000-60000 entries; "
        "Names properties without data); (e) decompression bombs (768 MiB of zeros behind Deflate/BZip2/LZMA/LZMA2/ZStandard/Brotli in a folder declaring two members of a "
        "few hundred KiB); plus the intact corpus. x call sequences of length <= 4 over {getnames, list, test, testzip, "
        "extractall, extract(T), reset} incl. extract twice without reset. Monitors per sequence: CPU time <= %.1fs (ITIMER_PROF, process CPU), "
        "VmHWM rise <= %d MiB, only Exception subclasses escape, worker exit status. (d) histories in one interpreter: one input x one sequence "
        "repeated 40 (quick) / 150 (thorough) times, on intact, damaged and structurally mutated archives (every NUMBER := 2^31; thorough also 0, 0xff): "
        "at quiescent points (after gc.collect) open descriptors, live Python threads, native threads (with a counter at the pyppmd boundary), "
        "resident memory and live allocator blocks must not grow with the number of sessions; steady block growth is then measured as bytes reachable "
        "from the interpreter's tracked objects (what pure-Python code keeps is reachable; what a native library keeps through a leaked reference "
        "count is not) and reported with tracemalloc's allocation sites. "
        "Cell = (input family, mutation class, sequence shape, outcome)."
        % (SEQ_CPU_BUDGET, RSS_BUDGET_KB // 1024))
ASSUMPTIONS = ["budgets calibrated on the valid corpus (largest valid sequence < 0.05 s CPU, < 20 MiB RSS rise): two orders of magnitude headroom",
               "wall clock never decides; a watchdog firing with CPU still advancing is inconclusive"]

OPS = ["getnames", "list", "test", "testzip", "extractall", "extract", "reset"]
HOSTILE = [0, 1, 2, 0x7F, 0x80, 0xFF, 0xFFFF, 1 << 31, 1 << 32, 1 << 63, (1 << 64) - 1]

BASE_LAYOUTS = [
    {"folders": [{"n": 2, "chain": [{"m": "LZMA2"}], "crc": "sub"}, {"n": 1, "chain": [{"m": "COPY"}], "crc": "sub"}], "header": "raw", "pack_crc": True, "dummy": 2},
    {"folders": [{"n": 3, "chain": [{"m": "BCJ"}, {"m": "LZMA"}], "crc": "sub"}], "header": "lzma+crc"},
    {"folders": [{"n": 1, "chain": [{"m": "DEFLATE"}], "crc": "folder"}, {"n": 2, "chain": [{"m": "ZStandard"}], "crc": "sub"}], "header": "raw"},
    {"folders": [{"n": 3, "chain": [{"m": "LZMA2"}, {"m": "7zAES", "cycles": 4}], "crc": "sub"}], "header": "lzma+crc"},
    {"folders": [{"n": 2, "chain": [{"m": "PPMd"}], "crc": "sub"}, {"n": 1, "chain": [{"m": "BZip2"}], "crc": "sub"}], "header": "copy"},
]

HOSTILE_PROPS = [
    ("030101", ["ffffffffff", "5d00000000", "5dffffffff", "e000001000", "00", "", "5d0000100000"]),           # LZMA lc/lp/pb/dict
    ("21", ["29", "ff", "28", "00", "", "1818"]),                                                                # LZMA2 dict code
    ("03", ["ff", "00", "", "0000"]),                                                                            # Delta
    ("030401", ["0000000000", "ffffffffff", "0600000000", "06ffffffff", "4000001000", "02", "", "08000000010000"]),  # PPMd order/mem
    ("04f71101", ["ffff00", "0105030000", "000000", "01", "", "0105ff"]),                                       # zstd version/level
    ("04f71102", ["ffff0b", "010000", "", "01000b00"]),                                                          # brotli
    ("06f10701", ["", "00", "3f", "18", "1f", "d3ff" + "00" * 32, "ff" + "ff" + "00" * 32, "c0", "40", "7f00", "bf" + "ff" + "11" * 31, "d8" + "0f" + "00" * 16,
                  "590011", "5e0011", "7e0011", "99" + "00" + "22", "de" + "00" + "3344", "7e" + "0f" + "55" * 16]),  # 7zAES cycles (25, 30, 62 with well-formed salt/iv)/salt/iv
    ("040202", ["00"]), ("040108", ["00"]), ("040109", ["00"]), ("00", ["00"]),
]


def _num(v):
    from vf.ref7z.numbers import encode_number

    return encode_number(v)


def _seal(header: bytes, body: bytes = b"") -> bytes:
    import struct
    import zlib

    start = struct.pack("<QQL", len(body), len(header), zlib.crc32(header) & 0xFFFFFFFF)
    return W.MAGIC + b"\x00\x04" + struct.pack("<L", zlib.crc32(start) & 0xFFFFFFFF) + start + body + header


def _crafted(which):
    copy_folder = b"\x07\x0b\x01\x00" + b"\x01\x01\x00" + b"\x0c\x01\x00"  # UnpackInfo: 1 folder, 1 coder (Copy), unpack size 1
    if which == "packstreams-2^40-no-sizes":
        return _seal(b"\x01\x04" + b"\x06\x00" + _num(1 << 40) + b"\x00" + b"\x00" + b"\x00")
    if which == "substreams-2^27-no-sizes":
        return _seal(b"\x01\x04" + b"\x06\x00\x01\x09\x01\x00" + copy_folder + b"\x08\x0d" + _num(1 << 27) + b"\x00" + b"\x00" + b"\x00", b"x")
    if which == "60000-empty-packstreams":
        n = 60000
        return _seal(b"\x01\x04" + b"\x06\x00" + _num(n) + b"\x09" + b"\x00" * n + b"\x00" + b"\x00" + b"\x00")
    if which == "30000-bindpairs":
        n = 30000
        coder = b"\x11\x00" + _num(n) + _num(n)  # complex coder: id size 1 (Copy), n in, n out
        folder = b"\x01" + coder + b"".join(b"\x00\x00" for _ in range(n - 1))
        return _seal(b"\x01\x04" + b"\x06\x00\x01\x09\x01\x00" + b"\x07\x0b\x01\x00" + folder + b"\x0c" + b"\x01" * n + b"\x00" + b"\x00" + b"\x00", b"x")
    if which == "names-without-data":
        props = b"\x11\x01\x00" * 18
        hdr = b"\x01\x05" + _num(480) + props + b"\x00\x00"
        return _seal(hdr)
    if which == "padded-header-4M-files":
        # a packed header that decodes to 'Header, FilesInfo, 4194304 files, End, End' and 512 KiB of zero padding (fifth hunt)
        d_ = 512 << 10
        raw = b"\x01\x05" + _num(8 * d_) + b"\x00\x00"
        return W.build([], {"folders": [], "header": "lzma"}, header_bytes_hook=lambda h: raw + bytes(d_ - len(raw)))
    if which == "700-streams-700-members":
        # one folder, one complex Copy coder of n in- and n out-streams, n-1 bind pairs (0, k+1), n members of no bytes
        n = 700
        coder = b"\x11\x00" + _num(n) + _num(n)
        folder = b"\x01" + coder + b"".join(b"\x00" + _num(k + 1) for k in range(n - 1))  # one in-stream stays unbound: the packed one
        streams = b"\x06\x00\x01\x09\x00\x00" + b"\x07\x0b\x01\x00" + folder + b"\x0c" + b"\x00" * n + b"\x00"
        sub = b"\x08\x0d" + _num(n) + b"\x09" + b"\x00" * (n - 1) + b"\x00"
        names = b"".join(("m%d" % i).encode("utf-16le") + b"\x00\x00" for i in range(n))
        files = b"\x05" + _num(n) + b"\x11" + _num(len(names) + 1) + b"\x00" + names + b"\x00"
        return _seal(b"\x01\x04" + streams + sub + b"\x00" + files + b"\x00")
    if which == "external-names-x6000":
        # one file; a name of 6000 characters parked in a Dummy property; 6000 Names properties that refer to it as external data
        k, ln = 6000, 6000
        name = ("n" * ln).encode("utf-16le") + b"\x00\x00"
        dummy = b"\x19" + _num(len(name)) + name
        # the offset of the parked name inside the header buffer: 01 05 01 | 19 <num> | name
        off = 3 + 1 + len(_num(len(name)))
        ext = b"\x11" + _num(1 + len(_num(off))) + b"\x01" + _num(off)
        return _seal(b"\x01\x05\x01" + dummy + ext * k + b"\x00\x00")
    if which == "3000-coders-3000-members":
        c, f = 3000, 3000
        folder = _num(c) + b"\x01\x00" * c + b"".join(_num(i + 1) + _num(i) for i in range(c - 1))
        streams = b"\x06\x00\x01\x09\x00\x00" + b"\x07\x0b\x01\x00" + folder + b"\x0c" + b"\x00" * c + b"\x00"
        sub = b"\x08\x0d" + _num(f) + b"\x09" + b"\x00" * (f - 1) + b"\x00"
        names = b"".join(("m%d" % i).encode("utf-16le") + b"\x00\x00" for i in range(f))
        files = b"\x05" + _num(f) + b"\x11" + _num(len(names) + 1) + b"\x00" + names + b"\x00"
        return _seal(b"\x01\x04" + streams + sub + b"\x00" + files + b"\x00")
    raise ValueError(which)


CRAFTED = ["packstreams-2^40-no-sizes", "substreams-2^27-no-sizes", "60000-empty-packstreams", "30000-bindpairs", "names-without-data",
           "padded-header-4M-files", "700-streams-700-members", "external-names-x6000", "3000-coders-3000-members"]
BOMB_CODECS = ["DEFLATE", "BZip2", "LZMA2", "LZMA", "ZStandard", "Brotli"]
_bombs = {}


def _bomb(codec, mib):
    """-> (method id hex, props hex or None, packed bytes): `mib` MiB of zeros compressed in a stream (8 MiB at a time)."""
    k = (codec, mib)
    if k in _bombs:
        return _bombs[k]
    import bz2
    import lzma
    import zlib

    chunk = bytes(8 << 20)
    n = mib // 8
    props = None
    if codec == "DEFLATE":
        c = zlib.compressobj(6, zlib.DEFLATED, -15)
        mid, feed, fin = "040108", c.compress, c.flush
    elif codec == "BZip2":
        c = bz2.BZ2Compressor(9)
        mid, feed, fin = "040202", c.compress, c.flush
    elif codec in ("LZMA2", "LZMA"):
        f = {"id": lzma.FILTER_LZMA2 if codec == "LZMA2" else lzma.FILTER_LZMA1, "preset": 1}
        props = lzma._encode_filter_properties(f).hex()
        c = lzma.LZMACompressor(format=lzma.FORMAT_RAW, filters=[f])
        mid, feed, fin = ("21" if codec == "LZMA2" else "030101"), c.compress, c.flush
    elif codec == "ZStandard":
        import pyzstd

        c = pyzstd.ZstdCompressor(3)
        props = bytes([1, 5, 3, 0, 0]).hex()
        mid, feed, fin = "04f71101", c.compress, c.flush
    elif codec == "Brotli":
        import brotli

        c = brotli.Compressor(quality=4)
        props = bytes([1, 0, 4]).hex()
        mid, feed, fin = "04f71102", c.process, c.finish
    else:
        raise ValueError(codec)
    packed = bytearray()
    for _ in range(n):
        packed += feed(chunk)
    packed += fin()
    _bombs[k] = (mid, props, bytes(packed))
    return _bombs[k]


def _base_members():
    return [{"name": "a.txt", "kind": "file", "data": b"alpha alpha alpha alpha\n" * 3, "mtime": 132000000000000000, "attributes": 0x20},
            {"name": "d", "kind": "dir", "attributes": 0x10, "mtime": 132000000000000001},
            {"name": "d/b.bin", "kind": "file", "data": bytes(range(64)) * 2, "mtime": 132000000000000002, "attributes": 0x20},
            {"name": "e", "kind": "emptyfile", "mtime": None, "attributes": 0x20},
            {"name": "c", "kind": "file", "data": b"z" * 40, "mtime": 5, "attributes": 0x20}]


def _seqs(rng, n, singles=False):
    out = [["getnames"], ["extractall"], ["testzip"], ["test"], ["list"], ["extractall", "extractall"], ["extract", "extract"], ["testzip", "testzip"],
           ["extractall", "testzip"], ["extractall", "reset", "extractall"], ["testzip", "extractall"], ["extract", "reset", "testzip", "extractall"]]
    rng.shuffle(out)
    out = out[: max(1, n // 2)]
    while len(out) < n:
        out.append([rng.choice(OPS) for _ in range(rng.randint(1, 4))])
    if singles:
        # every entry point alone on every mutated header: which call meets which number must not be left to the shuffle
        # (the regression drill lost seed C05-read-digest-no-eof, test() on a huge pack size, to a reshuffle)
        out = [s_ for s_ in (["test"], ["testzip"], ["extractall"], ["list"]) if s_ not in out] + out
    return out


def cases(rng, tier):
    seed = int(os.environ.get("VERIF_SEED", "0") or 0)
    corp = corpus.get(tier, seed)
    out = []
    nseq = 3 if tier == "quick" else 5
    # intact corpus x all sequences of length <= 2 (calibration + the histories part of the quantifier)
    all2 = [[a] for a in OPS] + [list(p) for p in itertools.product(OPS, repeat=2)]
    for a in corp if tier == "thorough" else corp[::3]:
        out.append({"fam": "intact", "arc": a, "seqs": all2 + _seqs(rng, 6), "open": "stream"})
        if a["folders"] > 1 and a["password"] is None:
            out.append({"fam": "intact", "arc": a, "seqs": all2, "open": "path"})
    # (a) damage
    for a in corp if tier == "thorough" else corp[::2]:
        size = len(a["hex"]) // 2
        ops = [["flip", rng.randrange(size * 8)] for _ in range(40 if tier == "quick" else 300)]
        ops += [["trunc", rng.randrange(size)] for _ in range(10 if tier == "quick" else 60)]
        ops += D.sampled_ops(rng, size, 32, 32 + a["pack_total"], 20 if tier == "quick" else 150)
        other = rng.choice(corp)
        oh = other["hex"]
        for _ in range(4 if tier == "quick" else 30):
            p = rng.randrange(size)
            q = rng.randrange(len(oh) // 2)
            ln = rng.randint(1, 64)
            ops.append(["splice", p, ln, oh[2 * q : 2 * (q + ln)]])
        for i in range(0, len(ops), 10):
            out.append({"fam": "damage", "arc": a, "ops": ops[i : i + 10], "seqs": _seqs(rng, nseq), "open": "stream"})
    # (b) structure-aware mutation
    mem = _base_members()
    for li, lay in enumerate(BASE_LAYOUTS if tier == "thorough" else BASE_LAYOUTS[:3]):
        toks = []
        W.build(mem, lay, password="pw", rng=random.Random(1), token_hook=lambda t: (toks.extend(t), t)[1])
        idx_n = [i for i, (k, v) in enumerate(toks) if k == "n"]
        idx_b = [i for i, (k, v) in enumerate(toks) if k == "b"]
        muts = []
        for i in idx_n:
            for v in HOSTILE:
                if v != toks[i][1]:
                    muts.append(["n", i, v])
        for i in idx_b:
            for v in (0, 1, 0x05, 0x09, 0x0E, 0x11, 0x17, 0x19, 0xFF):
                if v != toks[i][1]:
                    muts.append(["b", i, v])
        if tier == "quick":
            rng.shuffle(muts)
            muts = muts[:500]
        # raw blobs (method ids, coder properties, bit vectors, names): single-bit flips and 00/ff in the first three and the last byte
        rmuts = []
        for i, (k, v) in enumerate(toks):
            if k == "r" and 0 < len(v) <= 64:
                for pos in sorted({0, 1, 2, len(v) - 1} & set(range(len(v)))):
                    for nv in [v[pos] ^ (1 << b) for b in range(8)] + [0x00, 0xFF]:
                        if nv != v[pos]:
                            rmuts.append(["r", i, pos, nv])
        if tier == "quick":
            rng.shuffle(rmuts)
            rmuts = rmuts[:150]
        muts += rmuts
        for i in range(0, len(muts), 12):
            out.append({"fam": "struct", "layout": li, "muts": muts[i : i + 12], "seqs": _seqs(rng, nseq, singles=True), "open": "stream"})
        rawlen = len(W.emit_tokens(toks))
        ranges = []
        for _ in range(30 if tier == "quick" else 300):
            lo = rng.randrange(rawlen)
            hi = min(rawlen, lo + rng.randint(1, 24))
            ranges.append([rng.choice(["hdr-delete", "hdr-dup", "hdr-zero"]), lo, hi])
        for i in range(0, len(ranges), 10):
            out.append({"fam": "struct", "layout": li, "muts": ranges[i : i + 10], "seqs": _seqs(rng, nseq), "open": "stream"})
    for mid, plist in HOSTILE_PROPS:
        for props in plist:
            out.append({"fam": "props", "id": mid, "props": props, "seqs": _seqs(rng, 4), "open": "stream"})
    # (f) hand-crafted headers whose counts are not backed by the bytes that follow (sections left out), or whose
    # tables are long (quadratic parsers): found by a bug hunt, not reachable by one-token mutation of a valid header
    out.append({"fam": "slashslash"})
    for name in CRAFTED:
        out.append({"fam": "crafted", "which": name, "seqs": [["getnames"], ["list"], ["extractall"], ["testzip"]], "open": "stream"})
    # (e) decompression bombs: a folder whose packed stream expands to 768 MiB of zeros while the header declares two members
    # that together are as long as the packed stream itself (a few hundred KiB at most)
    for codec in BOMB_CODECS:
        out.append({"fam": "bomb", "codec": codec, "mib": 768, "seqs": [["extractall"], ["testzip"], ["extract"], ["extractall", "reset", "testzip"]], "open": "stream", "_cpu_budget": 300, "_timeout": 600})
    # (d) histories in one interpreter: the same sequence again and again on one input; what a call keeps
    # (descriptors, threads, memory) must not add up
    reps = 40 if tier == "quick" else 150
    rsel = corp[::4] if tier == "quick" else corp
    for a in rsel:
        size = len(a["hex"]) // 2
        for seq, opn in ((["extractall"], "path"), (["testzip", "reset", "extractall"], "stream"), (["extract", "extract"], "path"), (["list", "test"], "path")):
            out.append({"fam": "repeat", "arc": a, "ops": None, "seq": seq, "open": opn, "reps": reps})
        dmg = [["trunc", rng.randrange(32, size)], ["trunc", max(1, size - rng.randint(1, 40))], ["flip", rng.randrange(size * 8)], ["flip", rng.randrange(32 * 8, max(32 * 8 + 1, (32 + a["pack_total"]) * 8))]]
        for op in dmg if tier == "thorough" else dmg[:2]:
            out.append({"fam": "repeat", "arc": a, "ops": [op], "seq": rng.choice([["extractall"], ["testzip"], ["extractall", "testzip"]]), "open": rng.choice(["path", "stream"]), "reps": reps})
    for li, lay in enumerate(BASE_LAYOUTS):
        toks = []
        W.build(mem, lay, password="pw", rng=random.Random(1), token_hook=lambda t: (toks.extend(t), t)[1])
        idx_n = [i for i, (k, v) in enumerate(toks) if k == "n"]
        for i in idx_n:
            for v in ((1 << 31,) if tier == "quick" else (0, 0xFF, 1 << 31)):
                if v != toks[i][1]:
                    out.append({"fam": "repeat", "layout": li, "mut": ["n", i, v], "seq": rng.choice([["extractall"], ["testzip"], ["extractall", "testzip"]]), "open": "stream", "reps": reps})
    if tier == "thorough" and shutil.which("valgrind"):
        # memcheck over the stock interpreter: hostile coder properties for every codec library, a sample of the corpus, damaged PPMd/zstd/brotli streams
        for mid, plist in HOSTILE_PROPS:
            for props in plist:
                out.append({"fam": "valgrind", "id": mid, "props": props, "_timeout": 900, "_cpu_budget": 900})
        for a in corp[::3]:
            out.append({"fam": "valgrind", "arc": a, "ops": None, "_timeout": 900, "_cpu_budget": 900})
            size = len(a["hex"]) // 2
            out.append({"fam": "valgrind", "arc": a, "ops": [["flip", rng.randrange(32 * 8, max(32 * 8 + 1, (32 + a["pack_total"]) * 8))]], "_timeout": 900, "_cpu_budget": 900})
            out.append({"fam": "valgrind", "arc": a, "ops": [["trunc", max(33, size - rng.randint(1, 60))]], "_timeout": 900, "_cpu_budget": 900})
    for c in out:
        if c["fam"] == "repeat":
            # a history takes 1-3 s (quick), up to a minute with 150 repetitions of an AES key derivation; a block
            # inside a codec library is then named after this time rather than after CASE_TIMEOUT
            c["_timeout"] = 45 if tier == "quick" else 200
    # (c) passwords
    for a in corp:
        if a["password"] is not None:
            for pw in (None, "", "Secret", "secre", "secret " + "x" * 40, "\U0001F511"):
                out.append({"fam": "password", "arc": a, "pw": pw, "seqs": _seqs(rng, 4), "open": "stream"})
    return out


def _innermost(exc):
    """Mechanism name of a spin: the innermost frame of the orchestrating module (py7zr/py7zr.py) when
    there is one -- the loop that fails to terminate lives there, the callees below it vary from sample
    to sample -- otherwise the innermost py7zr frame."""
    tb = traceback.extract_tb(exc.__traceback__)
    for f in reversed(tb):
        if f.filename.endswith("/py7zr/py7zr.py") and f.name not in ("__init__", "__exit__", "close"):
            return "py7zr." + f.name
    for f in reversed(tb):
        if "/py7zr/" in f.filename:
            return os.path.basename(f.filename)[:-3] + "." + f.name
    return "?"


def _run_seq(src_factory, pw, seq, names_hint):
    """Run one call sequence on a fresh session. Returns (outcome, info)."""
    import py7zr

    calls = 0
    z = None
    try:
        z = py7zr.SevenZipFile(src_factory(), "r", password=pw)
        calls += 1
        for op in seq:
            if op == "getnames":
                z.getnames()
            elif op == "list":
                z.list()
            elif op == "test":
                z.test()
            elif op == "testzip":
                z.testzip()
            elif op == "extractall":
                z.extractall(factory=pz.CollectFactory())
            elif op == "extract":
                nm = z.getnames()
                z.extract(targets=nm[:1] + ["absent"], factory=pz.CollectFactory())
            elif op == "reset":
                z.reset()
            calls += 1
        return "returned", calls
    except Exception as e:
        return "raised:" + type(e).__name__, calls
    finally:
        if z is not None:
            try:
                z.close()
            except Exception:
                pass


def _native_threads():
    with open("/proc/self/status") as f:
        for line in f:
            if line.startswith("Threads:"):
                return int(line.split()[1])
    return 0


HEAP_GROWTH_PER_SESSION = int(os.environ.get("VF_C05_HEAP_THRESHOLD", "200"))  # reachable bytes kept per session, steadily


def _reachable_bytes():
    """Size of everything reachable from the interpreter's gc-tracked objects (containers, instances, frames,
    modules) plus their untracked direct referents (bytes, str, int ...), at a quiescent point."""
    import gc

    gc.collect()
    seen = set()
    total = 0
    for o in gc.get_objects():
        i = id(o)
        if i in seen:
            continue
        seen.add(i)
        try:
            total += sys.getsizeof(o)
        except Exception:
            pass
        for r in gc.get_referents(o):
            if not gc.is_tracked(r):
                j = id(r)
                if j not in seen:
                    seen.add(j)
                    try:
                        total += sys.getsizeof(r)
                    except Exception:
                        pass
    return total


def _nfds():
    return len(os.listdir("/proc/self/fd"))


PPMD_NOTE = "VF-NOTE pyppmd-thread-outlives-decode"


def worker_init():
    """Process-wide monitor at the pyppmd boundary: a native thread that is still there when decode() has returned (or raised) is
    reported on stderr. The runner hands the worker's stderr to on_abnormal() when the process dies: leaked decoder threads keep
    using their control block after the decoder is freed, and what dies then is whatever Python object got that memory next."""
    import py7zr.compressor as C

    orig = C.PpmdDecompressor.decompress
    notes = [0]

    def decompress(self_, data, max_length=-1):
        n0 = _native_threads()
        try:
            return orig(self_, data, max_length)
        finally:
            if _native_threads() > n0 and notes[0] < 8:
                notes[0] += 1
                sys.stderr.write("%s (%d native threads before the call, %d after)\n" % (PPMD_NOTE, n0, _native_threads()))
                sys.stderr.flush()

    C.PpmdDecompressor.decompress = decompress


class _PpmdBoundary:
    """Counts, at the library boundary, the native threads that appear during pyppmd decode calls."""

    def __init__(self):
        import py7zr.compressor as C

        self.C = C
        self.orig = C.PpmdDecompressor.decompress
        self.calls = 0
        self.spawned = 0
        self.system_errors = 0
        self.feed_ok = True
        self.feed_closed = False  # set when the warm-up is over: the record must not grow while the heap is being compared
        self.feed = []  # what pyppmd's decoder objects are asked to do (first FEED_CAP operations): replayable without py7zr
        self.real_decoder = C.pyppmd.Ppmd7Decoder
        mon = self

        def decompress(self_, data, max_length=-1):
            n0 = _native_threads()
            try:
                return mon.orig(self_, data, max_length)
            except SystemError:
                mon.system_errors += 1
                raise
            finally:
                mon.calls += 1
                mon.spawned += max(0, _native_threads() - n0)

        self.wrapped = decompress
        ids = [0]

        class Recorded:
            def __init__(self_, order, mem):
                ids[0] += 1
                self_._i = ids[0]
                mon._log(["new", self_._i, order, mem])
                self_._d = mon.real_decoder(order, mem)

            def decode(self_, data, max_length=-1):
                if len(data) > 65536:
                    mon.feed_ok = False  # not worth keeping: no replay for this history
                mon._log(["dec", self_._i, bytes(data).hex() if len(data) <= 65536 else "", max_length])
                return self_._d.decode(data, max_length)

            needs_input = property(lambda self_: self_._d.needs_input)
            eof = property(lambda self_: self_._d.eof)

            def __del__(self_):
                mon._log(["del", self_._i])

        self.recorded = Recorded

    FEED_CAP = 60

    def _log(self, op):
        if len(self.feed) < self.FEED_CAP and not self.feed_closed:
            self.feed.append(op)

    def __enter__(self):
        self.C.PpmdDecompressor.decompress = self.wrapped
        self.C.pyppmd.Ppmd7Decoder = self.recorded
        return self

    def __exit__(self, *a):
        self.C.PpmdDecompressor.decompress = self.orig
        self.C.pyppmd.Ppmd7Decoder = self.real_decoder


def _run_repeat(case):
    """One input, one call sequence, `reps` sessions in this interpreter. Monitors: descriptors, Python threads,
    native threads and resident memory after a warm-up vs at the end (quiescent points: after gc.collect())."""
    import gc

    from vf.core import worker as WK

    if case.get("arc"):
        a = case["arc"]
        data = bytes.fromhex(a["hex"])
        pw = a["password"]
        label = a["label"]
        cls = "intact"
        for op in case.get("ops") or []:
            data = D.apply(data, op)
            label += ":%r" % (op[:2],)
            cls = "damage-" + op[0]
    else:
        m = case["mut"]

        def hook(t, m=m):
            t = list(t)
            t[m[1]] = (t[m[1]][0], m[2])
            return t

        data = W.build(_base_members(), BASE_LAYOUTS[case["layout"]], password="pw", rng=random.Random(1), token_hook=hook)
        pw = "pw"
        label = "layout%d:%r" % (case["layout"], m)
        cls = "struct-number"
    seq = case["seq"]
    reps = case["reps"]
    obs = {"call_sequences_run": 0, "calls_returned_or_raised": 0, "repeat_histories": 1, "max_fd_growth": 0, "max_native_thread_growth": 0, "max_repeat_rss_growth_kb": 0}
    viol = []
    kind = "valid-archive" if cls == "intact" else "hostile-input"
    with pz.scratch("vf-c05r-") as d:
        if case["open"] == "path":
            p = os.path.join(d, "i.7z")
            with open(p, "wb") as f:
                f.write(data)
            fac = lambda: p  # noqa: E731
        else:
            fac = lambda: io.BytesIO(data)  # noqa: E731

        ppmd_seen = {}

        def history(reps, warm, heap, budget):
            """-> (base, mid_heap, end, outcome, sequences, calls); heap() is read at quiescent points."""
            base = mid = None
            outcome = "?"
            nseq = ncalls = 0
            with _PpmdBoundary() as pb:
                for r in range(reps):
                    if r == warm:
                        pb.feed_closed = True
                        gc.collect()
                        base = (_nfds(), threading.active_count(), _native_threads(), WK.rss_now_kb(), pb.spawned, heap(), pb.calls)
                    if r == warm + (reps - warm) // 2:
                        gc.collect()
                        mid = heap()
                    with WK.inner_budget(budget):
                        outcome, calls = _run_seq(fac, pw, seq, None)
                    nseq += 1
                    ncalls += calls
                gc.collect()
                end = (_nfds(), threading.active_count(), _native_threads(), WK.rss_now_kb(), pb.spawned, heap(), pb.calls)
            ppmd_seen.update(system_errors=ppmd_seen.get("system_errors", 0) + pb.system_errors, feed=ppmd_seen.get("feed") or (list(pb.feed) if pb.feed_ok else None))
            return base, mid, end, outcome, nseq, ncalls

        warm = 8
        try:
            base, mid, end, outcome, nseq, ncalls = history(reps, warm, sys.getallocatedblocks, SEQ_CPU_BUDGET)
        except WK.CpuBudget as e:
            fn = _innermost(e)
            return K.result("violated", key="spin/%s/%s" % (fn, kind), what="%s, sequence %r repeated in one interpreter: no return within %.1fs CPU; spinning in %s" % (label, seq, SEQ_CPU_BUDGET, fn), _restart=True)
        obs["call_sequences_run"] += nseq
        obs["calls_returned_or_raised"] += ncalls
        n = reps - warm
        half = max(1, n // 2)
        dfd, dpy, dnat, drss, dsp, _, dcalls = (end[i] - base[i] for i in range(7))
        steady_blocks = min(mid - base[5], end[5] - mid)
        obs["max_fd_growth"] = dfd
        obs["max_native_thread_growth"] = dnat
        obs["max_repeat_rss_growth_kb"] = drss
        obs["max_steady_live_block_growth_x100_per_session"] = steady_blocks * 100 // half
        tag = "%s, sequence %r x %d in one interpreter (%s)" % (label, seq, n, outcome)
        restart = False
        lib_threads = False
        if dfd > 2:
            viol.append({"key": "leak/descriptors/%s" % kind, "what": "%s: open descriptors grew by %d" % (tag, dfd)})
        if dpy > 1:
            viol.append({"key": "leak/python-threads", "what": "%s: live Python threads grew by %d" % (tag, dpy)})
            restart = True
        if dnat - dpy > 2:
            restart = True
            if dsp >= (dnat - dpy) - 1:
                lib_threads = True
                obs["pyppmd_threads_left_behind"] = dnat - dpy
                viol.append({"key": "codec-library/pyppmd-decoder-thread-leak" + ("/valid-archive" if cls == "intact" else ""),
                             "what": "%s: %d native threads left behind, %d of them seen starting inside pyppmd's decode() (%d decode calls)" % (tag, dnat - dpy, dsp, dcalls)})
            else:
                viol.append({"key": "leak/native-threads", "what": "%s: native threads grew by %d (Python threads by %d; %d started inside pyppmd decode calls)" % (tag, dnat, dpy, dsp)})
        if drss > 48 * 1024 and not lib_threads:
            viol.append({"key": "leak/memory/%s" % kind, "what": "%s: resident memory grew by %d MiB after the warm-up (input %d bytes)" % (tag, drss // 1024, len(data))})
        if steady_blocks >= half and not lib_threads and not restart:
            # At least one more live block per session in both halves of the run. Second, shorter history:
            # (1) verdict: bytes *reachable* from the interpreter's tracked objects. py7zr is pure Python: what it keeps
            #     (a cache, a list, a registry) is reachable from some container; what a native library keeps by a
            #     leaked reference count (inflate64 keeps every inflate() argument, pybcj 40 bytes per decoder) is not.
            # (2) report: tracemalloc growth by allocation site (its slowdown is why it is not the first pass).
            import tracemalloc

            obs["heap_growth_measured"] = 1
            tracemalloc.start(6)
            try:
                snaps = []

                def heap():
                    r = _reachable_bytes()
                    sn = tracemalloc.take_snapshot()  # kept on disk: in memory it would itself be reachable growth
                    snaps.append(os.path.join(d, "snap%d" % len(snaps)))
                    sn.dump(snaps[-1])
                    del sn
                    return (r, tracemalloc.get_traced_memory()[0])

                r2, w2 = 20, 4
                try:
                    b2, m2, e2, _, _, _ = history(r2, w2, heap, SEQ_CPU_BUDGET * 20)
                except WK.CpuBudget:
                    b2 = None
                if b2 is not None:
                    h2 = (r2 - w2) // 2
                    per = min(m2[0] - b2[5][0], e2[5][0] - m2[0]) // h2
                    per_all = min(m2[1] - b2[5][1], e2[5][1] - m2[1]) // h2
                    obs["max_steady_reachable_growth_bytes_per_session"] = per
                    obs["max_steady_allocator_growth_bytes_per_session"] = per_all
                    if per >= HEAP_GROWTH_PER_SESSION:
                        flt = [tracemalloc.Filter(False, tracemalloc.__file__), tracemalloc.Filter(False, "/verif/*")]
                        sites = []
                        for st in tracemalloc.Snapshot.load(snaps[-1]).filter_traces(flt).compare_to(tracemalloc.Snapshot.load(snaps[-3]).filter_traces(flt), "traceback")[:3]:
                            fr = [f for f in st.traceback if "/py7zr/" in f.filename] or list(st.traceback)
                            sites.append("%+d B in %+d blocks at %s:%d" % (st.size_diff, st.count_diff, os.path.basename(fr[-1].filename), fr[-1].lineno))
                        key = "leak/heap/%s" % kind
                        what = "%s: objects reachable in the interpreter grow steadily by %d bytes per session (input %d bytes; allocator growth %d B/session); largest allocation sites: %s" % (
                            tag, per, len(data), per_all, "; ".join(sites))
                        if kind == "hostile-input" and ppmd_seen.get("system_errors") and ppmd_seen.get("feed"):
                            # pyppmd's decode() failed with SystemError ('returned NULL without setting an exception') in these sessions. Does the
                            # library alone, asked the very same things in a fresh process without any py7zr code, lose memory each time?
                            alone = K.pyppmd_alone_leaks_on_failed_decode(ppmd_seen["feed"])
                            obs["pyppmd_alone_replays"] = 1
                            if alone:
                                key = "codec-library/pyppmd-decode-error-leak"
                                what = ("pyppmd's Ppmd7Decoder.decode() ends with SystemError (returned NULL without setting an exception) on this hostile stream and leaves its output block list behind: "
                                        "the recorded calls replayed against pyppmd alone lose %d bytes in %d orphaned lists per 10 rounds (%d SystemErrors); symptom here: %s" % (alone[1], alone[0], alone[2], what))
                        viol.append({"key": key, "what": what})
            finally:
                tracemalloc.stop()
    cell = "repeat|%s|%s|%s|%s" % (cls, "+".join(seq), case["open"], outcome.split(":")[0])
    sample = {"family": "repeat", "input": label[:80], "sequence": seq, "repetitions": n, "fd_growth": dfd, "native_thread_growth": dnat, "rss_growth_kb": drss,
              "live_block_growth_per_session": round(steady_blocks / half, 2)}
    extra = {"_restart": True} if restart else {}
    if viol:
        return K.result("violated", violations=viol, cells=[cell], obs=obs, sample=sample, **extra)
    return K.result("held", cells=[cell], obs=obs, sample=sample, **extra)


_VG_DRIVER = r"""
import sys, io
import py7zr
data = open(sys.argv[1], "rb").read()
pw = sys.argv[2] if len(sys.argv) > 2 and sys.argv[2] != "-" else None
for op in ("testzip", "extractall"):
    try:
        with py7zr.SevenZipFile(io.BytesIO(data), password=pw) as z:
            if op == "testzip":
                z.testzip()
            else:
                z.extractall(factory=py7zr.io.BytesIOFactory(1 << 20))
        print(op, "returned")
    except Exception as e:
        print(op, type(e).__name__)
"""


def _vg_parse(text):
    """valgrind log -> {"<kind> in <library>": count}"""
    import re

    reports = re.split(r"\n(?===\d+== (?:Invalid|Conditional|Use of uninit|Syscall param|Mismatched|Source and dest))", text)
    libs = {}
    for r in reports:
        m = re.match(r"==\d+== (Invalid \w+|Conditional jump|Use of uninitialised|Syscall param|Mismatched free|Source and destination)", r)
        if not m:
            continue
        so = re.findall(r"\(in ([^)]*site-packages[^)]*)\)|\((Ppmd\w*\.c|ThreadDecoder\.c|\w*ppmd\w*\.c|\w*bcj\w*\.c|\w*zstd\w*\.c|\w*brotli\w*\.c|\w*inflate\w*\.c|\w*deflate\w*\.c):\d+\)", r)
        lib = "cpython-or-libc"
        for a_, b_ in so:
            name = a_ or b_
            lib = os.path.basename(name).split(".")[0]
            break
        key = "%s in %s" % (m.group(1), lib)
        libs[key] = libs.get(key, 0) + 1
    return libs


def _run_valgrind(case):
    """One input under valgrind memcheck (stock interpreter, PYTHONMALLOC=malloc). Informational: invalid reads/writes
    inside a codec library are recorded per library; only the interpreter dying is C05's business, and the
    other families already decide that. A report whose stack has no codec-library frame (CPython itself) is
    recorded separately."""
    import re
    import subprocess

    if case.get("arc"):
        a = case["arc"]
        data = bytes.fromhex(a["hex"])
        pw = a["password"]
        label = a["label"]
        for op in case.get("ops") or []:
            data = D.apply(data, op)
            label += ":%r" % (op[:2],)
    else:
        payload = random.Random(3).randbytes(96)
        mem = [{"name": "x", "kind": "file", "data": payload, "mtime": None, "attributes": 0x20}]
        data = W.build(mem, {"folders": [{"n": 1, "chain": [{"m": "RAW", "id": case["id"], "props": case["props"] or None}], "crc": "sub"}], "header": "raw"})
        pw = "pw"
        label = "props:%s:%s" % (case["id"], case["props"])
    obs = {"valgrind_runs": 0, "valgrind_runs_with_reports": 0, "valgrind_reports": 0}
    with pz.scratch("vf-c05v-") as d:
        inp = os.path.join(d, "i.7z")
        with open(inp, "wb") as f:
            f.write(data)
        log = os.path.join(d, "vg.log")
        env = dict(os.environ, PYTHONMALLOC="malloc")
        root = os.environ.get("VERIF_REPO", "/repo")
        env["PYTHONPATH"] = root + os.pathsep + env.get("PYTHONPATH", "")
        try:
            p = subprocess.run(["valgrind", "-q", "--num-callers=10", "--error-limit=no", "--log-file=" + log, sys.executable, "-c", _VG_DRIVER, inp, pw if pw is not None else "-"],
                               capture_output=True, text=True, timeout=800, env=env)
        except subprocess.TimeoutExpired:
            return K.result("inconclusive", key="valgrind-timeout", what="%s: valgrind run exceeded 800 s" % label)
        obs["valgrind_runs"] = 1
        text = open(log, errors="replace").read() if os.path.exists(log) else ""
    libs = _vg_parse(text)
    obs["valgrind_reports"] = sum(libs.values())
    obs["valgrind_runs_with_reports"] = 1 if libs else 0
    for k, v in libs.items():
        obs["valgrind: " + k] = v
    died = p.returncode < 0 or p.returncode >= 128
    cell = "valgrind|%s|%s|%s" % ("coder-props" if not case.get("arc") else ("intact" if not case.get("ops") else "damage-" + case["ops"][0][0]), "reports" if libs else "clean", "died" if died else "survived")
    sample = {"family": "valgrind", "input": label[:80], "reports": libs, "stdout": p.stdout.strip().splitlines()[:2], "exit": p.returncode}
    return K.result("held", cells=[cell], obs=obs, sample=sample)


def _run_slashslash(case):
    """A valid archive, opened by name and from a stream, extracted into a destination spelled in ways that name the same
    directory ('//abs', 'abs/', 'abs/.', './rel', 'rel//'): every call returns within the budget (fifth hunt: '//' never did)."""
    import py7zr

    from vf.core import worker as WK

    obs = {"call_sequences_run": 0, "calls_returned_or_raised": 0, "max_seq_cpu_ms": 0, "max_rss_rise_kb": 0}
    viol, cells = [], set()
    cwd0 = os.getcwd()
    with pz.scratch("vf-c05d-") as d:
        arc = os.path.join(d, "v.7z")
        for i in range(3):
            with py7zr.SevenZipFile(arc, "w" if i == 0 else "a") as z:
                z.writestr(b"member %d " % i * 30, "d%d/f%d.txt" % (i, i))
        with open(arc, "rb") as f:
            data = f.read()
        os.chdir(d)
        try:
            for spell in ("//{D}/o1", "{D}/o2/", "{D}/o3/.", "./o4", "o5//", "///{D}/o6", "{D}/./o7"):
                dest = spell.replace("{D}", d.lstrip("/"))
                if not dest.startswith((".", "o", "/")):
                    dest = "/" + dest
                for how in ("path", "stream"):
                    t0 = time.process_time()
                    outcome = "returned"
                    try:
                        with WK.inner_budget(SEQ_CPU_BUDGET * 2):
                            with py7zr.SevenZipFile(arc if how == "path" else io.BytesIO(data)) as z:
                                z.extractall(dest)
                    except WK.CpuBudget as e:
                        fn = _innermost(e)
                        return K.result("violated", key="spin/%s/valid-archive" % fn, what="valid three-folder archive opened by %s, extractall(%r): no return within %.1fs CPU; spinning in %s" % (
                            how, spell, SEQ_CPU_BUDGET * 2, fn), _restart=True)
                    except Exception as e:
                        outcome = "raised:" + type(e).__name__
                    obs["call_sequences_run"] += 1
                    obs["calls_returned_or_raised"] += 1
                    obs["max_seq_cpu_ms"] = max(obs["max_seq_cpu_ms"], int((time.process_time() - t0) * 1000))
                    cells.add("dest-spelling|%s|%s|%s" % (spell, how, outcome))
        finally:
            os.chdir(cwd0)
    return K.result("held", cells=sorted(cells), obs=obs, sample={"family": "slashslash"})


def run_case(case):
    from vf.core import worker as WK

    viol = []
    obs = {"call_sequences_run": 0, "calls_returned_or_raised": 0, "max_seq_cpu_ms": 0, "max_rss_rise_kb": 0}
    cells = set()
    inputs = []  # (label, bytes, password)
    fam = case["fam"]
    if fam == "repeat":
        return _run_repeat(case)
    if fam == "slashslash":
        return _run_slashslash(case)
    if fam == "valgrind":
        return _run_valgrind(case)
    if fam in ("intact", "damage", "password"):
        a = case["arc"]
        base = bytes.fromhex(a["hex"])
        if fam == "intact":
            inputs.append(("intact:" + a["label"], base, a["password"], "intact"))
        elif fam == "password":
            inputs.append(("pw:%r:%s" % (case["pw"], a["label"]), base, case["pw"], "wrong-password" if case["pw"] is not None else "no-password"))
        else:
            for op in case["ops"]:
                inputs.append(("%s:%r" % (a["label"], op[:3]), D.apply(base, op), a["password"], "damage-" + op[0]))
    elif fam == "struct":
        lay = BASE_LAYOUTS[case["layout"]]
        mem = _base_members()
        for m in case["muts"]:
            if m[0] in ("n", "b", "r"):
                def hook(t, m=m):
                    t = list(t)
                    if m[0] == "r":
                        blob = bytearray(t[m[1]][1])
                        blob[m[2]] = m[3]
                        t[m[1]] = ("r", bytes(blob))
                    else:
                        t[m[1]] = (t[m[1]][0], m[2])
                    return t
                data = W.build(mem, lay, password="pw", rng=random.Random(1), token_hook=hook)
                cls = "blob-byte" if m[0] == "r" else "number=%s" % ("0" if m[2] == 0 else "small" if m[2] < 256 else "huge") if m[0] == "n" else "idbyte"
            else:
                def bhook(b, m=m):
                    if m[0] == "hdr-delete":
                        return b[: m[1]] + b[m[2]:]
                    if m[0] == "hdr-dup":
                        return b[: m[2]] + b[m[1] : m[2]] + b[m[2]:]
                    return b[: m[1]] + bytes(m[2] - m[1]) + b[m[2]:]
                data = W.build(mem, lay, password="pw", rng=random.Random(1), header_bytes_hook=bhook)
                cls = m[0]
            inputs.append(("layout%d:%r" % (case["layout"], m), data, "pw", "struct-" + cls))
    elif fam == "crafted":
        inputs.append(("crafted:" + case["which"], _crafted(case["which"]), None, "crafted-header"))
    elif fam == "bomb":
        mid, props, packed = _bomb(case["codec"], case["mib"])
        half = len(packed) // 2
        mem = [{"name": "m1", "kind": "file", "data": packed[:half], "mtime": None, "attributes": 0x20}, {"name": "m2", "kind": "file", "data": packed[half:], "mtime": None, "attributes": 0x20}]
        # no CRCs: the declared bytes are the first bytes of the zeros, the stored 'data' only fixes the declared sizes
        data = W.build(mem, {"folders": [{"n": 2, "chain": [{"m": "RAW", "id": mid, "props": props}], "crc": "none"}], "header": "raw"})
        obs["bomb_expansion_mib"] = case["mib"]
        inputs.append(("bomb:%s:%dMiB-in-%dB" % (case["codec"], case["mib"], len(data)), data, None, "bomb"))
    else:
        payload = random.Random(3).randbytes(96)
        mem = [{"name": "x", "kind": "file", "data": payload, "mtime": None, "attributes": 0x20}]
        data = W.build(mem, {"folders": [{"n": 1, "chain": [{"m": "RAW", "id": case["id"], "props": case["props"] or None}], "crc": "sub"}], "header": "raw"})
        inputs.append(("props:%s:%s" % (case["id"], case["props"]), data, "pw", "coder-props"))
    base_rss = None
    with pz.scratch("vf-c05-") as d:
        for label, data, pw, cls in inputs:
            for seq in case["seqs"]:
                if case.get("open") == "path":
                    p = os.path.join(d, "i-%d.7z" % random.getrandbits(40))
                    with open(p, "wb") as f:
                        f.write(data)
                    fac = lambda p=p: p  # noqa: E731
                else:
                    fac = lambda data=data: io.BytesIO(data)  # noqa: E731
                WK.reset_rss_peak()
                r0 = WK.rss_now_kb()
                t0 = os.times()
                outcome = None
                try:
                    with WK.inner_budget(SEQ_CPU_BUDGET):
                        outcome, calls = _run_seq(fac, pw, seq, None)
                except WK.CpuBudget as e:
                    fn = _innermost(e)
                    viol.append({"key": "spin/%s/%s" % (fn, "valid-archive" if fam == "intact" else "hostile-input"),
                                 "what": "%s, sequence %r: no return within %.1fs CPU (input %d bytes); spinning in %s" % (label, seq, SEQ_CPU_BUDGET, len(data), fn)})
                    obs["call_sequences_run"] += 1
                    cells.add("%s|%s|spin" % (cls, "+".join(seq)[:40]))
                    if threading.active_count() > 1:
                        raise
                    continue
                except BaseException as e:  # SystemExit, KeyboardInterrupt, GeneratorExit ...
                    viol.append({"key": "non-exception-escapes/%s" % type(e).__name__, "what": "%s, sequence %r: %s escaped" % (label, seq, type(e).__name__)})
                    continue
                t1 = os.times()
                cpu_ms = int(((t1.user - t0.user) + (t1.system - t0.system)) * 1000)
                rise = WK.rss_peak_kb() - r0
                obs["call_sequences_run"] += 1
                obs["calls_returned_or_raised"] += calls
                obs["max_seq_cpu_ms"] = max(obs["max_seq_cpu_ms"], cpu_ms)
                obs["max_rss_rise_kb"] = max(obs["max_rss_rise_kb"], rise)
                if rise > RSS_BUDGET_KB + 4 * (len(data) // 1024 + 1024):
                    viol.append({"key": "memory/%s" % cls, "what": "%s, sequence %r: peak RSS rose by %d MiB for an input of %d bytes" % (label, seq, rise // 1024, len(data))})
                if fam == "intact" and outcome.startswith("raised:"):
                    # valid archive, legal call sequence: an exception here is C12's business, recorded only
                    obs["intact_sequences_raising"] = obs.get("intact_sequences_raising", 0) + 1
                cells.add("%s|%s|%s" % (cls, "+".join(seq)[:40], outcome.split(":")[0]))
    sample = {"family": fam, "inputs": [i[0][:80] for i in inputs[:3]], "sequences": case["seqs"][:3]}
    if viol:
        seen = {}
        for v in viol:
            seen.setdefault(v["key"], v)
        return K.result("violated", violations=list(seen.values()), cells=sorted(cells), obs=obs, sample=sample)
    return K.result("held", cells=sorted(cells), obs=obs, sample=sample)


def _ppmd_candidates(case):
    """(order, mem) pairs a PPMd coder of this case's inputs may declare: the props family's own value, mutated
    5/7-byte blobs of a layout with a PPMd coder, and any 5-byte property following method id 030401 in the bytes."""
    import struct

    out = []
    fam = case.get("fam")
    blobs = []
    if fam == "props" and case.get("id") == "030401":
        blobs.append(bytes.fromhex(case.get("props") or ""))
    elif fam in ("struct", "repeat") and case.get("layout") is not None:
        lay = BASE_LAYOUTS[case["layout"]]
        if any(c.get("m") == "PPMd" for f in lay["folders"] for c in f["chain"]):
            toks = []
            W.build(_base_members(), lay, password="pw", rng=random.Random(1), token_hook=lambda t: (toks.extend(t), t)[1])
            for m in case.get("muts") or [case.get("mut")]:
                if m and m[0] == "r" and toks[m[1]][0] == "r":
                    b = bytearray(toks[m[1]][1])
                    b[m[2]] = m[3]
                    blobs.append(bytes(b))
    elif case.get("arc"):
        base = bytes.fromhex(case["arc"]["hex"])
        for op in case.get("ops") or []:
            img = D.apply(base, op)
            i = img.find(b"\x03\x04\x01\x05")
            while i >= 0:
                blobs.append(img[i + 4 : i + 9])
                i = img.find(b"\x03\x04\x01\x05", i + 1)
    for b in blobs:
        if len(b) in (5, 7):
            order, mem = struct.unpack("<BL", b[:5])
            if (order, mem) not in out:
                out.append((order, mem))
    return out


_PPMD_ALLOC = r"""
import resource, sys
import pyppmd
lim = int(sys.argv[3])
resource.setrlimit(resource.RLIMIT_AS, (lim, lim))
try:
    d = pyppmd.Ppmd7Decoder(int(sys.argv[1]), int(sys.argv[2]))
    d.decode(bytes(32), 10)
except Exception as e:
    print(type(e).__name__)
"""


def _ppmd_alloc_aborts(order, mem) -> bool:
    import signal
    import subprocess

    if mem < (1 << 30):
        return False
    try:
        # a limit below the declared model: the allocation must fail, as it does in a worker whose address space is partly used
        p = subprocess.run([sys.executable, "-c", _PPMD_ALLOC, str(order), str(mem), str(min(RLIMIT_AS, max(512 << 20, mem // 2)))], capture_output=True, timeout=120)
    except subprocess.TimeoutExpired:
        return False
    return p.returncode == -signal.SIGABRT


def on_abnormal(case, kind, info):
    fam = case.get("fam")
    if kind == "cpu-budget":
        fn = "?"
        lines = (info or "").splitlines()
        for line in reversed(lines):
            if "/py7zr/py7zr.py" in line and " in " in line:
                fn = "py7zr." + line.rsplit(" in ", 1)[1].strip()
                break
        else:
            for line in reversed(lines):
                if "/py7zr/" in line and " in " in line:
                    fn = line.rsplit(" in ", 1)[1].strip()
                    break
        return K.result("violated", key="spin/%s/%s" % (fn, "valid-archive" if fam == "intact" else "hostile-input"), what="worker thread kept spinning (%s)" % fam)
    if kind == "deadlock":
        # valid_input: the runner must not file a block inside a codec library under the library's known
        # finding (decode past the end of a hostile stream) when the archive was a valid one
        return K.result("violated", key="deadlock/%s" % fam, what="call blocked with no CPU progress (%s)" % fam, valid_input=(fam == "intact"))
    if kind.startswith("crash:") and "ABRT" in kind:
        has_ppmd = case.get("layout") == 4 or "ppmd" in str((case.get("arc") or {}).get("label", "")).lower()
        if has_ppmd and fam != "intact" and not (fam == "repeat" and case.get("arc") and not case.get("ops")) and any(t in (info or "") for t in ("tpp_change_priority", "pthread_mutex", "futex")):
            # the same damaged mutex that otherwise blocks both threads for good, noticed by glibc's own assertion
            return K.result("violated", key="codec-library/pyppmd-decoder-deadlock", what="family %s on a hostile PPMd input: glibc aborted inside its mutex code (%s)" % (fam, (info or "").strip()[-120:]))
        for order, mem in _ppmd_candidates(case):
            if _ppmd_alloc_aborts(order, mem):
                return K.result("violated", key="codec-library/pyppmd-alloc-failure-abort",
                                what="family %s: the input declares a PPMd model of %d bytes (order %d); pyppmd alone, in a fresh process whose address-space limit is below the declared model, aborts "
                                     "the process when that allocation fails (%s)" % (fam, mem, order, (info or "").strip()[-60:]))
    if kind.startswith("crash:") and "KILL" not in kind and fam != "intact" and not (fam == "repeat" and case.get("arc") and not case.get("ops")):
        from vf.core import runner

        b = runner.blocked_inside(info)
        if PPMD_NOTE in (info or "") and not (b and b[0].endswith("/py7zr/compressor.py") and b[3] == "PpmdDecompressor"):
            # not inside decode() itself: but in this very process pyppmd's decoder threads outlived their decode() call on a hostile
            # stream (the monitor at the boundary saw them), and such threads go on using memory that is freed with the decoder
            # (gdb: the dying dict's keys object lies among the futex words the leaked threads wait on)
            return K.result("violated", key="codec-library/pyppmd-decoder-crash-on-hostile-stream",
                            what="family %s: %s in a process in which pyppmd decoder threads had outlived their decode() call on a hostile stream (%s); innermost Python frame %s" % (
                                fam, kind, PPMD_NOTE, ("%s:%s" % (os.path.basename(b[0]), b[1])) if b else "unknown"))
        if b and b[0].endswith("/py7zr/compressor.py") and b[3] == "PpmdDecompressor":
            # the interpreter died inside pyppmd's decode() on a stream that is not a valid PPMd stream of the declared length
            return K.result("violated", key="codec-library/pyppmd-decoder-crash-on-hostile-stream",
                            what="family %s: %s with the main thread inside PpmdDecompressor.decompress (pyppmd asked to decode a damaged stream or past its end)" % (fam, kind))
    if kind.startswith("crash:"):
        if "KILL" in kind:
            return K.result("violated", key="killed/%s" % fam, what="worker was killed (out of memory?) on family %s" % fam)
        desc = ""
        if fam == "props":
            desc = "/coder-%s-props-%s" % (case.get("id"), case.get("props"))
        elif fam == "struct":
            desc = "/layout%s" % case.get("layout")
        elif case.get("arc"):
            desc = "/" + case["arc"]["label"]
        return K.result("violated", key="interpreter-died/%s%s" % (kind, desc), what="worker died with %s on family %s %s (%s)" % (kind, fam, desc, (info or "").strip()[-120:]))
    return None
