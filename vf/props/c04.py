"""C04 — damage is detected: no success with different content; test()/testzip() consistent."""
import io
import os
import random
import struct
import threading

from vf.core import pz
from vf.gen import damage as D
from vf.props import common as K
from vf.props import corpus

LEVEL = "fault_enumeration"
CASE_TIMEOUT = 600
CPU_BUDGET = 400
REQUIRED_OBS = ["images_evaluated", "images_rejected_with_error", "testzip_calls", "test_calls"]
RULE = ("valid small archives (py7zr-written for every codec family, +-AES, raw/encoded header, 1..3 folders; reference-written with packed CRCs, "
        "folder-level CRCs, non-solid) x damage: EVERY single-bit flip, EVERY truncation length, sampled byte overwrites, bursts <= 32 bits, "
        "inserts/deletes, block swaps in the packed area, extension. Per image: open+getnames+extractall(factory), testzip(), test(); oracle = "
        "pristine member map. Violation: a read that returns normally with names/bytes != pristine; testzip()==None or test()==True while "
        "extraction of the same image fails or differs; damage verdict on the intact archive. A spinning call is recorded as deferred_to_C05. "
        "Cell = (archive label, damage kind, region of the damaged byte, outcome class).")
EXHAUSTIVE = {"quick": "all single-bit flips and all truncation lengths of 16 archives (incl. one with partially defined pack CRCs, one whose names LZMA2 stores uncompressed; every third bit of one with an AES-only encrypted header)", "thorough": "all single-bit flips and all truncation lengths of every corpus archive"}
ASSUMPTIONS = ["success with identical content is correct (version bytes, padding, inter-section gaps are unprotected by design)"]
QUICK_LABELS = ["py/default/encoded/f1", "py/default/raw/f3", "py/lzma/encoded/f1", "py/bzip2/encoded/f1", "py/deflate/encoded/f1", "py/copy/raw/f1",
                "py/zstd/encoded/f1", "py/ppmd/encoded/f1", "py/lzma2+aes/encoded/f1", "py/copy+aes/encoded/f1", "ref/copy/packcrc/raw", "ref/nonsolid/3",
                "ref/foldercrc/single", "py/default/encoded/cjk-names", "py/lzma2+aes/encrypted-header/f1", "ref/partial-packcrc"]
# archives whose header stream carries no CRC at all cannot have header damage detected by any reader: outside the quantifier
NOT_PROTECTED = {"ref/lzma/hdr-nocrc"}


def cases(rng, tier):
    seed = int(os.environ.get("VERIF_SEED", "0") or 0)
    corp = corpus.get(tier, seed)
    out = []
    corp = [a for a in corp if a["label"] not in NOT_PROTECTED]
    use = [a for a in corp if tier == "thorough" or a["label"] in QUICK_LABELS]
    for a in use:
        size = len(a["hex"]) // 2
        base = {"arc": a}
        out.append({"kind": "intact", **base})
        step = 12
        # an archive whose header is encrypted costs two key derivations per image: in the quick tier every third bit
        stride = 3 if (tier == "quick" and "encrypted-header" in a["label"]) else 1
        for lo in range(0, size, step):
            out.append({"kind": "flips", "lo": lo * 8, "hi": min(size, lo + step) * 8, "stride": stride, **base})
        for lo in range(0, size, 48):
            out.append({"kind": "truncs", "lo": lo, "hi": min(size, lo + 48), **base})
        nsamp = 150 if tier == "quick" else 1500
        ops = D.sampled_ops(rng, size, 32, 32 + a["pack_total"], nsamp)
        for i in range(0, len(ops), 50):
            out.append({"kind": "ops", "ops": ops[i : i + 50], **base})
    # multi-folder archives through the parallel paths (threads, processes), disk extraction
    multi = [a for a in corp if a["folders"] >= 2 and a["password"] is None]
    for a in multi[: (3 if tier == "quick" else 20)]:
        lo, hi = 32, 32 + a["pack_total"]
        for i in range(12 if tier == "quick" else 80):
            pos = rng.randrange(lo, hi)
            out.append({"kind": "parallel", "arc": a, "op": ["set", pos, rng.randrange(256)], "mp": bool(i & 1)})
    return out


def _pristine(a):
    return [n for n, _ in a["members"]], {n: bytes.fromhex(h) for n, h in a["members"]}


def _session(img, pw, names, want, budget=0.6):
    """-> dict(extract: ('ok'|'raise'|'differs'|'spin', info), testzip: ..., test: ...)"""
    import py7zr

    from vf.core import worker as WK

    res = {}
    # 1. extraction
    try:
        with WK.inner_budget(budget):
            fac = pz.CollectFactory()
            with py7zr.SevenZipFile(io.BytesIO(img), password=pw) as z:
                gn = z.getnames()
                z.extractall(factory=fac)
        got = fac.as_dict()
        if gn != names:
            res["extract"] = ("differs", "names %r instead of %r" % (gn[:5], names[:5]))
        else:
            bad = [n for n in names if got.get(n) != want[n]]
            res["extract"] = ("differs", "member %r delivered as %r.. (%d bytes), pristine %d bytes" % (bad[0], (got.get(bad[0]) or b"")[:12], len(got.get(bad[0]) or b""), len(want[bad[0]]))) if bad else ("ok", "")
    except WK.CpuBudget:
        if threading.active_count() > 1:
            raise
        res["extract"] = ("spin", "")
    except Exception as e:
        res["extract"] = ("raise", type(e).__name__)
    # 1b. selective extraction of the last member (skipped members before it are only CRC-checked)
    try:
        with WK.inner_budget(budget):
            fac = pz.CollectFactory()
            with py7zr.SevenZipFile(io.BytesIO(img), password=pw) as z:
                z.extract(targets=names[-1:], factory=fac)
        got = fac.as_dict()
        bad = [n for n, b in got.items() if want.get(n) != b]
        res["selective"] = ("differs", "extract(targets=[%r]) delivered %r with bytes different from the pristine ones" % (names[-1], bad[:2])) if bad else ("ok", "")
    except WK.CpuBudget:
        if threading.active_count() > 1:
            raise
        res["selective"] = ("spin", "")
    except Exception as e:
        res["selective"] = ("raise", type(e).__name__)
    # 2. testzip / test
    for call in ("testzip", "test"):
        try:
            with WK.inner_budget(budget):
                with py7zr.SevenZipFile(io.BytesIO(img), password=pw) as z:
                    v = getattr(z, call)()
            res[call] = ("ok", v)
        except WK.CpuBudget:
            if threading.active_count() > 1:
                raise
            res[call] = ("spin", None)
        except Exception as e:
            res[call] = ("raise", type(e).__name__)
    return res


def run_case(case):
    a = case["arc"]
    base = bytes.fromhex(a["hex"])
    names, want = _pristine(a)
    pw = a["password"]
    viol = []
    obs = {k: 0 for k in REQUIRED_OBS}
    obs.update(images_identical_content=0, deferred_to_C05=0)
    cells = set()
    pack_lo, pack_hi = 32, 32 + a["pack_total"]
    nh_ofs = struct.unpack_from("<Q", base, 12)[0]
    hdr_lo = 32 + nh_ofs

    def judge(img, op):
        kind = op[0]
        pos = (op[1] >> 3) if kind in ("flip", "burst") else (op[1] if kind in ("set", "insert", "delete", "zero", "swap", "trunc") else len(base))
        reg = D.region(min(pos, len(base) - 1), pack_lo, pack_hi, hdr_lo)
        r = _session(img, pw, names, want)
        obs["images_evaluated"] += 1
        ex = r["extract"]
        if ex[0] == "spin" or r["testzip"][0] == "spin" or r["test"][0] == "spin":
            obs["deferred_to_C05"] += 1
        if ex[0] == "raise":
            obs["images_rejected_with_error"] += 1
        elif ex[0] == "ok":
            obs["images_identical_content"] += 1
        elif ex[0] == "differs":
            viol.append({"key": "success-with-different-content/%s/%s" % (a["label"].split("/")[0] + "/" + a["label"].split("/")[1], reg),
                         "what": "%s damaged by %r (%s): extraction returned normally but %s" % (a["label"], op, reg, ex[1])})
        sel = r.get("selective")
        if sel is not None:
            obs["selective_extractions"] = obs.get("selective_extractions", 0) + 1
            if sel[0] == "differs":
                viol.append({"key": "selective-success-with-different-content/%s" % reg, "what": "%s damaged by %r (%s): %s" % (a["label"], op, reg, sel[1])})
        for call in ("testzip", "test"):
            st, v = r[call]
            obs[call + "_calls"] += 1
            if st != "ok":
                continue
            certifies = (v is None) if call == "testzip" else (v is True)
            if certifies and ex[0] in ("raise", "differs"):
                viol.append({"key": "%s-certifies-damaged/%s" % (call, reg), "what": "%s damaged by %r (%s): %s() returned %r but extraction %s" % (
                    a["label"], op, reg, call, v, "raised " + ex[1] if ex[0] == "raise" else "differs: " + ex[1])})
        cells.add("%s|%s|%s|%s" % (a["label"], kind, reg, ex[0]))

    sample = {"archive": a["label"], "bytes": len(base), "kind": case["kind"]}
    if case["kind"] == "intact":
        r = _session(base, pw, names, want, budget=10.0)
        obs["images_evaluated"] += 1
        if r["extract"][0] != "ok":
            viol.append({"key": "intact-not-readable", "what": "%s intact: extraction %r" % (a["label"], r["extract"])})
        if r["testzip"][0] == "ok" and r["testzip"][1] is not None:
            viol.append({"key": "intact-flagged/testzip", "what": "%s intact: testzip() returned %r" % (a["label"], r["testzip"][1])})
        elif r["testzip"][0] != "ok":
            viol.append({"key": "intact-testzip-%s/%s" % (r["testzip"][0], "multi-folder-stream" if a["folders"] > 1 else "single"),
                         "what": "%s intact (%d folders, opened from a stream): testzip() %s %r" % (a["label"], a["folders"], r["testzip"][0], r["testzip"][1])})
        if r["test"][0] == "ok" and r["test"][1] is False:
            viol.append({"key": "intact-flagged/test", "what": "%s intact: test() returned False" % a["label"]})
        elif r["test"][0] != "ok":
            viol.append({"key": "intact-test-%s" % r["test"][0], "what": "%s intact: test() %s %r" % (a["label"], r["test"][0], r["test"][1])})
        obs["testzip_calls"] += 1
        obs["test_calls"] += 1
        obs["images_rejected_with_error"] += 0
        cells.add("%s|intact" % a["label"])
        sample["verdicts"] = {"testzip": repr(r["testzip"]), "test": repr(r["test"])}
    elif case["kind"] == "flips":
        for bit in range(case["lo"], case["hi"], case.get("stride", 1)):
            judge(D.apply(base, ["flip", bit]), ["flip", bit])
        sample["bits"] = [case["lo"], case["hi"]]
    elif case["kind"] == "truncs":
        for ln in range(case["lo"], case["hi"]):
            judge(D.apply(base, ["trunc", ln]), ["trunc", ln])
        sample["lengths"] = [case["lo"], case["hi"]]
    elif case["kind"] == "ops":
        for op in case["ops"]:
            judge(D.apply(base, op), op)
        sample["ops"] = case["ops"][:3]
    else:
        _parallel(case, a, base, names, want, viol, obs, cells)
        sample["op"] = case["op"]
        sample["mp"] = case["mp"]
    if viol:
        seen = {}
        for v in viol:
            seen.setdefault(v["key"], v)
        return K.result("violated", violations=list(seen.values()), cells=sorted(cells), obs=obs, sample=sample)
    return K.result("held", cells=sorted(cells), obs=obs, sample=sample)


def _parallel(case, a, base, names, want, viol, obs, cells):
    """Damaged multi-folder archive opened by path: thread-parallel or process-parallel disk extraction."""
    import py7zr

    img = D.apply(base, case["op"])
    with pz.scratch("vf-c04p-") as d:
        p = os.path.join(d, "a.7z")
        with open(p, "wb") as f:
            f.write(img)
        out = os.path.join(d, "out")
        try:
            with py7zr.SevenZipFile(p, "r", mp=case["mp"]) as z:
                gn = z.getnames()
                z.extractall(out)
            status = "ok"
        except Exception as e:
            status = "raise:" + type(e).__name__
        obs["images_evaluated"] += 1
        obs["parallel_runs"] = obs.get("parallel_runs", 0) + 1
        if status == "ok":
            tree = pz.walk_tree(out) if os.path.isdir(out) else {}
            bad = [n for n in names if (tree.get(n) or {}).get("data") != want[n]]
            if gn != names or bad:
                viol.append({"key": "success-with-different-content/parallel-%s" % ("processes" if case["mp"] else "threads"),
                             "what": "%s damaged by %r: extractall(path, mp=%s) returned normally but %r differ from the pristine bytes" % (a["label"], case["op"], case["mp"], bad[:3])})
            else:
                obs["images_identical_content"] += 1
        else:
            obs["images_rejected_with_error"] += 1
        cells.add("%s|parallel|%s|%s" % (a["label"], "mp" if case["mp"] else "threads", status.split(":")[0]))


def on_abnormal(case, kind, info):
    if kind in ("cpu-budget", "deadlock"):
        return K.result("inconclusive", key="deferred-to-C05/" + kind, what="a damaged image made a worker thread spin (%s); decided by C05" % case["arc"]["label"])
    return None
