"""C07 — writer conformance: every archive py7zr writes is parsed by the strict, independent
reference reader (offline checker over the artefact) and must yield exactly what was written."""
import os

from vf.core import pz
from vf.gen import basic as G
from vf.gen import trees as T
from vf.mon import contracts
from vf.props import common as K
from vf.ref7z import reader as R

LEVEL = "exploration"
CASE_TIMEOUT = 1800
CPU_BUDGET = 120
REQUIRED_OBS = ["archives_validated", "ref_members_compared"]
RULE = ("py7zr write histories (1..3 sessions: create + appends; members via writestr/writef/write/writeall; directory, empty-file and "
        "symlink entries; every chain, header mode, password) -> raw bytes parsed by the strict reference reader after EVERY session; "
        "violation = any structural finding (offsets/sizes/CRCs/tiling/counts/property sizes) or a recovered member list different from "
        "the model. Cell = (chain of last session, header, #sessions, kinds present, aes).")
ASSUMPTIONS = ["vf/ref7z implements the grammar of Appendix A of DESIGN.md; self-checked against third-party fixtures",
               "only format invariants are checked, not style (optional sections, NUMBER minimality)"]

HEADERS = ["encoded", "raw", "encrypted_ctor", "encrypted_setter"]


def cases(rng, tier):
    n = 300 if tier == "quick" else 6000
    out = []
    chains = G.all_chains(rng)
    i = 0
    while len(out) < n:
        i += 1
        kind = "tree" if rng.random() < 0.3 else "mem"
        nsess = rng.choice([1, 1, 2, 2, 3])
        sessions = []
        pw = rng.choice(G.PASSWORDS) if rng.random() < 0.35 else None
        for s in range(nsess):
            ch = chains[(i * 3 + s) % len(chains)] if rng.random() < 0.6 else G.chain(rng)
            if s > 0:
                ch = [c for c in ch if c["f"] != "DEFLATE64"] or [{"f": "LZMA2", "preset": 1}]
                if not any(c["f"] in G.COMPRESSORS for c in ch):
                    ch = [{"f": "COPY"}] + ch
            if pw is None:
                ch = [c for c in ch if c["f"] != "AES"] or [{"f": "COPY"}]
            header = rng.choice(HEADERS if pw is not None else HEADERS[:2])
            mem = G.member_list(rng, n=rng.choice([0, 1, 2, 3, 5]) if s else rng.choice([1, 2, 3, 5]), max_len=30000)
            for m in mem:
                m["name"] = "s%d/%s" % (s, m["name"])
            sessions.append({"chain": ch, "header": header, "members": mem, "entry": rng.choice(["writestr", "writef_bytesio", "writef_buffered", "mixed"])})
        case = {"kind": kind, "password": pw, "sessions": sessions, "target": rng.choice(["path", "fileobj", "bytesio"])}
        if kind == "tree":
            case["tree"] = T.tree(rng, max_entries=10, max_len=8000)
            case["deref"] = False
            case["target"] = "path"
        out.append(case)
    # sessions that add nothing with a stream (a directory, an empty tree) between sessions that do (fourth hunt)
    for i in range(6 if tier == "quick" else 60):
        out.append({"kind": "dir-session", "chains": [rng.choice(["LZMA2", "COPY", "ZSTD", "BZIP2"]) for _ in range(3)], "header": rng.choice(HEADERS[:2]), "pos": i % 3, "seed": rng.getrandbits(30)})
    if tier == "thorough":
        out.append({"kind": "testsuite"})
    return out


def _run_dir_session(case, viol, obs):
    import py7zr

    filt = {"LZMA2": [{"id": py7zr.FILTER_LZMA2, "preset": 1}], "COPY": [{"id": py7zr.FILTER_COPY}], "ZSTD": [{"id": py7zr.FILTER_ZSTD, "level": 1}], "BZIP2": [{"id": py7zr.FILTER_BZIP2}]}
    model = []
    with pz.scratch("vf-c07d-") as d:
        path = os.path.join(d, "t.7z")
        os.mkdir(os.path.join(d, "somedir"))
        for si in range(3):
            with py7zr.SevenZipFile(path, "w" if si == 0 else "a", filters=filt[case["chains"][si]]) as z:
                if case["header"] == "raw":
                    z.set_encoded_header_mode(False)
                if si == case["pos"]:
                    z.write(os.path.join(d, "somedir"), "dir%d" % si)
                    model.append(("dir%d" % si, "dir", None))
                else:
                    blob = (b"session %d " % si) * (si + 3)
                    z.writestr(blob, "s%d.txt" % si)
                    model.append(("s%d.txt" % si, "file", blob))
            with open(path, "rb") as f:
                data = f.read()
            validate(data, None, model, viol, obs, "session %d of 3 (%s; the session at position %d adds only a directory)" % (si, case["chains"][si], case["pos"]))
            obs["sessions"] = obs.get("sessions", 0) + 1


def _run_testsuite(viol, obs):
    """The repository's own tests as a workload: every archive a test closes in a write mode is parsed
    by the strict reference reader (vf/mon/pytest_plugin.py)."""
    import json
    import subprocess
    import sys
    import tempfile

    root = os.environ.get("VERIF_REPO", "/repo")
    here = os.path.dirname(os.path.dirname(os.path.dirname(os.path.abspath(__file__))))
    with tempfile.TemporaryDirectory(prefix="vf-c07-suite-") as d:
        rep = os.path.join(d, "report.jsonl")
        env = dict(os.environ, VF_PLUGIN_REPORT=rep, PYTHONPATH=here + os.pathsep + root)
        p = subprocess.run([sys.executable, "-m", "pytest", "-q", "-p", "no:cacheprovider", "-p", "vf.mon.pytest_plugin", "--timeout=900", "-x", "--basetemp", os.path.join(d, "bt"),
                            os.path.join(root, "tests")], cwd=root, env=env, capture_output=True, text=True, timeout=1500)
        obs["testsuite_exit"] = p.returncode
        n = 0
        if os.path.exists(rep):
            for line in open(rep):
                r = json.loads(line)
                if r.get("skipped"):
                    obs["testsuite_archives_skipped"] = obs.get("testsuite_archives_skipped", 0) + 1
                    continue
                n += 1
                for f in r.get("findings") or []:
                    code, _, text = f.partition("| ")
                    viol.append({"key": "testsuite/structure/" + code, "what": "%s: %s" % (r["test"][:80], text[:200])})
                if r.get("error"):
                    viol.append({"key": "testsuite/ref-rejects/" + r["error"].split(":")[0], "what": "%s: reference reader rejects the archive the test wrote: %s" % (r["test"][:80], r["error"])})
        obs["archives_validated"] = obs.get("archives_validated", 0) + n
        obs["ref_members_compared"] = obs.get("ref_members_compared", 0) + n
        obs["testsuite_archives_validated"] = n
        try:
            os.unlink(os.path.join(root, "tests", "data", "test_multiple.7z"))
        except OSError:
            pass


def worker_init():
    contracts.install()


def expected_tree_members(root, arc):
    """What writeall(root, arcname=arc) must store, from an independent walk."""
    out = []

    def walk(p, a):
        if os.path.islink(p):
            out.append((a, "link", os.readlink(p).encode("utf-8")))
        elif os.path.isdir(p):
            out.append((a, "dir", None))
            for nm in sorted(os.listdir(p)):
                walk(os.path.join(p, nm), a + "/" + nm)
        elif os.path.isfile(p):
            with open(p, "rb") as f:
                out.append((a, "file", f.read()))

    walk(root, arc)
    return out


def validate(data, password, model, viol, obs, tag):
    """model: list of (name, kind, bytes|None)."""
    try:
        arc = R.parse(data, password)
    except Exception as e:
        viol.append({"key": "ref-rejects/%s" % type(e).__name__, "what": "%s: reference reader rejects the archive: %s" % (tag, pz.exc_sig(e))})
        return
    obs["archives_validated"] = obs.get("archives_validated", 0) + 1
    for f in arc.findings:
        code, _, text = f.partition("| ")
        viol.append({"key": "structure/" + code, "what": "%s: %s" % (tag, text[:300])})
    if arc.streams is not None:
        for fi, f_ in enumerate(arc.streams.folders):
            if f_.num_substreams == 0:
                # a folder of the writer's own making that holds no member: its packed stream belongs to nobody (and other readers stop there)
                viol.append({"key": "structure/folder-without-members", "what": "%s: folder %d of %d has no substreams (packed sizes %r)" % (tag, fi, len(arc.streams.folders), arc.streams.pack_sizes)})
    rn = arc.names()
    mn = [m[0] for m in model]
    if rn != mn:
        viol.append({"key": "ref-names-differ", "what": "%s: reference reader lists %r, model %r" % (tag, rn[:8], mn[:8])})
        return
    for m, (name, kind, blob) in zip(arc.members, model):
        obs["ref_members_compared"] = obs.get("ref_members_compared", 0) + 1
        if kind == "dir":
            if not m.is_dir:
                viol.append({"key": "ref-kind-differs/dir", "what": "%s: %r written as directory, stored as %s" % (tag, name, m.record()["kind"])})
        elif kind == "link":
            if not m.is_symlink or m.data != blob:
                viol.append({"key": "ref-kind-differs/link", "what": "%s: link %r stored as %s with %r" % (tag, name, m.record()["kind"], (m.data or b"")[:40])})
        else:
            if m.is_dir:
                viol.append({"key": "ref-kind-differs/file", "what": "%s: file %r stored as a directory entry" % (tag, name)})
            elif (m.data or b"") != blob:
                viol.append({"key": "ref-bytes-differ", "what": "%s: %r: reference reader recovers %d bytes (crc %08x), written %d (crc %08x)" % (
                    tag, name, len(m.data or b""), pz.crc(m.data or b""), len(blob), pz.crc(blob))})
            elif m.crc is None and len(blob) > 0:
                viol.append({"key": "no-crc-for-member", "what": "%s: %r stored without CRC" % (tag, name)})
    obs["ref_notes"] = obs.get("ref_notes", 0) + len(arc.notes)
    for nt in arc.notes:
        if nt.startswith("trailing"):
            # signature header, packed streams, header: nothing else belongs to the file py7zr wrote
            viol.append({"key": "trailing-bytes-after-header", "what": "%s: %s (stale bytes of an earlier, longer header or file)" % (tag, nt)})


def run_case(case):
    contracts.reset()
    viol, obs = [], {}
    if case.get("kind") == "testsuite":
        _run_testsuite(viol, obs)
        if viol:
            seen = {}
            for v in viol:
                seen.setdefault(v["key"], v)
            return K.result("violated", violations=list(seen.values()), cell="testsuite", obs=obs)
        return K.result("held", cell="testsuite", obs=obs, sample={"kind": "repository test suite under the reference-reader plugin", "archives": obs.get("testsuite_archives_validated")})
    if case.get("kind") == "dir-session":
        _run_dir_session(case, viol, obs)
        if viol:
            seen = {}
            for v in viol:
                seen.setdefault(v["key"], v)
            return K.result("violated", violations=list(seen.values()), cell="dir-session|%d|%s" % (case["pos"], case["header"]), obs=obs)
        return K.result("held", cell="dir-session|%d|%s" % (case["pos"], case["header"]), obs=obs, sample={"kind": "session adding only a directory", "position": case["pos"]})
    model = []
    allb = b""
    import py7zr

    with pz.scratch("vf-c07-") as d:
        path = os.path.join(d, "t.7z")
        obj = None
        try:
            for si, s in enumerate(case["sessions"]):
                mode = "w" if si == 0 else "a"
                members = K.mat_members(s["members"])
                try:
                    if si == 0 and case["kind"] == "tree":
                        root = os.path.join(d, "src")
                        T.make(root, case["tree"])
                        filters = G.resolve_chain(s["chain"])
                        try:
                            with py7zr.SevenZipFile(path, "w", filters=filters, password=case["password"], header_encryption=(s["header"] == "encrypted_ctor")) as z:
                                if s["header"] == "raw":
                                    z.set_encoded_header_mode(False)
                                elif s["header"] == "encrypted_setter":
                                    z.set_encrypted_header(True)
                                z.writeall(root, arcname="t")
                                for n_, b_ in members:
                                    z.writestr(b_, n_)
                        except py7zr.exceptions.UnsupportedCompressionMethodError as e:
                            raise K.Rejected(str(e))
                        finally:
                            T.unlock(root)
                        model += expected_tree_members(root, "t")
                        model += [(n_, "file", b_) for n_, b_ in members]
                        with open(path, "rb") as f:
                            data = f.read()
                    else:
                        path, obj, data = K.write_session(d, members, s["chain"], case["password"], s["header"], case["target"], s["entry"], None, mode=mode, path=path, obj=obj)
                        model += [(n_, "file", b_) for n_, b_ in members]
                except K.Rejected as e:
                    if si == 0:
                        return K.result("held", cell="rejected|" + G.chain_label(s["chain"]), nontrivial=False, obs={"rejected_by_writer": 1})
                    obs["rejected_append"] = obs.get("rejected_append", 0) + 1
                    break
                validate(data, case["password"], model, viol, obs, "after session %d (%s, header %s)" % (si, G.chain_label(s["chain"]), s["header"]))
                allb = data
                if viol:
                    break
        except Exception as e:
            import traceback

            if K.rooted_in_rejection(e):
                return K.result("held", cell="rejected|lazy", nontrivial=False, obs={"rejected_by_writer": 1})
            viol.append({"key": "write-raises/%s" % type(e).__name__, "what": "session raised %s" % pz.exc_sig(e), "trace": traceback.format_exc()[-1200:]})
    cnt, cv = contracts.snapshot()
    for k, v in cnt.items():
        obs["contract:" + k] = v
    for name, msg in cv:
        viol.append({"key": "contract/" + name, "what": msg})
    last = case["sessions"][-1]
    kinds = sorted({k for _, k, _ in model})
    cell = "|".join([G.chain_label(last["chain"]), last["header"], "s%d" % len(case["sessions"]), ",".join(kinds), "pw" if case["password"] is not None else "-", case["target"]])
    sample = {"kind": case["kind"], "sessions": [(G.chain_label(s["chain"]), s["header"], len(s["members"])) for s in case["sessions"]], "members": len(model), "archive_bytes": len(allb)}
    if viol and any(c["f"] == "PPMD" for s in case["sessions"] for c in s["chain"]):
        for s in case["sessions"]:
            if any(c["f"] == "PPMD" for c in s["chain"]) and K.pyppmd_faulty(s["chain"], [G.materialise(m["content"]) for m in s["members"]]):
                viol = [{"key": "codec-library/pyppmd-roundtrip", "what": "pyppmd alone cannot round-trip this input (symptom: %s)" % viol[0]["what"][:150]}]
                break
    if viol and any(c["f"] == "DEFLATE64" for s in case["sessions"] for c in s["chain"]):
        for s in case["sessions"]:
            pieces = [b_ for _, k_, b_ in model if k_ in ("file", "symlink") and b_] if len(case["sessions"]) == 1 else [G.materialise(m["content"]) for m in s["members"]]
            if K.inflate64_faulty(s["chain"], pieces):
                viol = [{"key": "codec-library/inflate64-roundtrip", "what": "inflate64 alone (Deflater fed these %d pieces, then Inflater) does not give the input back (symptom: %s)" % (len(pieces), viol[0]["what"][:150])}]
                break
    if viol:
        seen = {}
        for v in viol:
            seen.setdefault(v["key"], v)
        return K.result("violated", violations=list(seen.values()), cell=cell, obs=obs, sample=sample)
    return K.result("held", cell=cell, nontrivial=bool(model), obs=obs, sample=sample)


def on_abnormal(case, kind, info):
    if kind in ("cpu-budget", "deadlock"):
        return K.result("violated", key="hang/" + kind, what="write history did not finish (%s)" % kind)
    return None
