"""C20 — streaming in bounded memory: peak RSS of a process that writes, extracts or tests one large
member stays within 700 MiB above its baseline (resource monitor: VmHWM via /proc, reset per phase)."""
import io
import os
import random
import zlib

from vf.core import pz
from vf.props import common as K

LEVEL = "exploration"
CASE_TIMEOUT = 3000
CPU_BUDGET = 2500
WORKERS = 8
RLIMIT_AS = 12 << 30
BUDGET_KB = 700 * 1024
REQUIRED_OBS = ["phases_measured", "bytes_streamed_mib"]
RULE = ("one dedicated worker process per (codec family, filter variant, texture, size, sink, position of the big member): the source is a generated stream "
        "(zeros / short period / PRNG bytes produced on the fly) written with writef, then extracted to a counting WriterFactory / to disk / checked with testzip(). "
        "Monitor: VmHWM reset before each phase (/proc/self/clear_refs) and read after it; violation when the rise exceeds 700 MiB (the README's upper figure). "
        "Sizes 0.5 GiB (quick) to 2 GiB (thorough), i.e. well above the 128 MB extraction chunk. Shapes found by a bug hunt: 900 one-byte members in front of a member whose packed form "
        "exceeds the budget; four folders of 400 MiB opened by name (one worker each); a 400 MiB member carrying the link attribute (raising is fine); psutil reporting 200 MB available. Cell = (chain, texture, phase, position).")
ASSUMPTIONS = ["fast presets (the property is about memory, not ratio)", "the budget is the property's own figure; baseline is the RSS right before the phase, after imports and a warm-up"]

CHAINS = {
    "LZMA2": [("LZMA2", {"preset": 0})], "LZMA": [("LZMA", {"preset": 0})], "BZIP2": [("BZIP2", {})], "COPY": [("COPY", {})], "DEFLATE": [("DEFLATE", {})],
    "DEFLATE64": [("DEFLATE64", {})], "ZSTD": [("ZSTD", {"level": 1})], "BROTLI": [("BROTLI", {"level": 1})], "PPMD": [("PPMD", {"order": 2, "mem": 20})],
    "X86+LZMA2": [("X86", {}), ("LZMA2", {"preset": 0})], "DELTA+LZMA2": [("DELTA", {}), ("LZMA2", {"preset": 0})], "X86+ZSTD": [("X86", {}), ("ZSTD", {"level": 1})],
    "ARM+DEFLATE": [("ARM", {}), ("DEFLATE", {})], "LZMA2+AES": [("LZMA2", {"preset": 0}), ("AES", {})], "COPY+AES": [("COPY", {}), ("AES", {})], "ZSTD+AES": [("ZSTD", {"level": 1}), ("AES", {})],
}


def cases(rng, tier):
    out = []
    size = 512 if tier == "quick" else 1536
    if tier == "quick":
        plan = [("LZMA2", "zeros"), ("LZMA", "zeros"), ("BZIP2", "zeros"), ("COPY", "zeros"), ("DEFLATE", "zeros"), ("ZSTD", "zeros"), ("BROTLI", "zeros"), ("PPMD", "zeros"),
                ("COPY", "random"), ("ZSTD", "random"), ("DEFLATE", "random"), ("LZMA2+AES", "zeros"), ("X86+ZSTD", "period"), ("COPY+AES", "random"), ("DEFLATE64", "zeros")]
        for ch, tex in plan:
            out.append({"chain": ch, "texture": tex, "mib": size, "sinks": ["factory", "testzip"], "position": "only"})
        out.append({"chain": "ZSTD", "texture": "zeros", "mib": size, "sinks": ["disk"], "position": "between"})
        for sh in ("tiny-before-big", "many-folders", "link-of-member-size", "memory-short"):
            out.append({"shape": sh, "chain": "ZSTD" if sh == "tiny-before-big" else "LZMA2", "texture": "random" if sh == "tiny-before-big" else "zeros", "mib": 900 if sh == "tiny-before-big" else 400,
                        "sinks": [], "position": sh})
        out.append({"shape": "big-dictionaries", "chain": "LZMA2", "texture": "zeros", "mib": 70, "sinks": [], "position": "big-dictionaries"})
        out.append({"shape": "many-buffers", "chain": "ZSTD", "texture": "period", "mib": 8, "sinks": [], "position": "many-buffers"})
    else:
        for ch in CHAINS:
            for tex in ("zeros", "period", "random"):
                if tex == "random" and ch in ("PPMD", "BZIP2", "LZMA", "LZMA2", "X86+LZMA2", "DELTA+LZMA2", "LZMA2+AES", "BROTLI", "DEFLATE64"):
                    continue  # minutes of compression per GiB for no additional memory behaviour
                out.append({"chain": ch, "texture": tex, "mib": size, "sinks": ["factory", "testzip", "disk"], "position": rng.choice(["only", "first", "last", "between"])})
        for sh, ch, tex, mib in (("tiny-before-big", "ZSTD", "random", 900), ("tiny-before-big", "DEFLATE", "random", 900), ("tiny-before-big", "LZMA2", "random", 800), ("tiny-before-big", "COPY+AES", "random", 900),
                                 ("many-folders", "LZMA2", "zeros", 400), ("many-folders", "ZSTD", "zeros", 600), ("many-folders", "BZIP2", "zeros", 300),
                                 ("link-of-member-size", "LZMA2", "zeros", 400), ("link-of-member-size", "COPY", "zeros", 1024), ("memory-short", "LZMA2", "zeros", 400), ("memory-short", "ZSTD", "period", 1024)):
            out.append({"shape": sh, "chain": ch, "texture": tex, "mib": mib, "sinks": [], "position": sh})
        out.append({"shape": "big-dictionaries", "chain": "LZMA2", "texture": "zeros", "mib": 70, "sinks": [], "position": "big-dictionaries"})
        for ch in ("ZSTD", "LZMA2", "COPY"):
            out.append({"shape": "many-buffers", "chain": ch, "texture": "period", "mib": 8, "sinks": [], "position": "many-buffers"})
    return out


class GenStream(io.BufferedIOBase):
    """A source of `size` bytes produced on the fly (never materialised)."""

    def __init__(self, size, texture, seed=1):
        self.size, self.pos, self.texture = size, 0, texture
        self.rng = random.Random(seed)
        self.block = None
        if texture == "period":
            self.block = (b"0123456789abcdefghijklmnopqrstuvwxyz-" * 30000)[: 1 << 20]
        self.crc = 0

    def read(self, n=-1):
        if n is None or n < 0:
            n = self.size - self.pos
        n = min(n, self.size - self.pos, 4 << 20)
        if n <= 0:
            return b""
        if self.texture == "zeros":
            b = bytes(n)
        elif self.texture == "period":
            off = self.pos % len(self.block)
            b = (self.block[off:] + self.block * (n // len(self.block) + 1))[:n]
        else:
            b = self.rng.randbytes(n)
        self.pos += n
        self.crc = zlib.crc32(b, self.crc)
        return b

    def seek(self, off, whence=0):
        if whence == 0:
            self.pos = off
        elif whence == 1:
            self.pos += off
        else:
            self.pos = self.size + off
        return self.pos

    def tell(self):
        return self.pos

    def readable(self):
        return True

    def seekable(self):
        return True


class CountIO(pz.CollectIO):
    def __init__(self, name):
        super().__init__(name)
        self.n = 0
        self.crc = 0

    def write(self, s):
        self.n += len(s)
        self.crc = zlib.crc32(s, self.crc)
        return len(s)

    def size(self):
        return self.n


class CountFactory(pz.CollectFactory):
    def create(self, filename):
        io_ = CountIO(filename)
        self.created.append((filename, io_))
        return io_


def run_case(case):
    import py7zr
    from py7zr import properties as P

    from vf.core import worker as WK

    ids = {"LZMA2": P.FILTER_LZMA2, "LZMA": P.FILTER_LZMA, "BZIP2": P.FILTER_BZIP2, "COPY": P.FILTER_COPY, "DEFLATE": P.FILTER_DEFLATE, "DEFLATE64": P.FILTER_DEFLATE64,
           "ZSTD": P.FILTER_ZSTD, "BROTLI": P.FILTER_BROTLI, "PPMD": P.FILTER_PPMD, "X86": P.FILTER_X86, "ARM": P.FILTER_ARM, "DELTA": P.FILTER_DELTA, "AES": P.FILTER_CRYPTO_AES256_SHA256}
    filters = [dict(id=ids[n], **kw) for n, kw in CHAINS[case["chain"]]]
    pw = "secret" if "AES" in case["chain"] else None
    size = case["mib"] << 20
    viol = []
    obs = {"phases_measured": 0, "bytes_streamed_mib": 0}
    cells = []
    peaks = {}
    with pz.scratch("vf-c20-", big=True) as d:
        arc = os.path.join(d, "big.7z")
        # warm-up: touch every lazily imported module and codec before measuring
        b = io.BytesIO()
        with py7zr.SevenZipFile(b, "w", filters=filters, password=pw) as z:
            z.writestr(b"warm-up" * 100, "w")
        with py7zr.SevenZipFile(io.BytesIO(b.getvalue()), password=pw) as z:
            z.extractall(factory=CountFactory())

        def measure(label, fn):
            import gc

            gc.collect()
            WK.reset_rss_peak()
            r0 = WK.rss_now_kb()
            err = None
            try:
                fn()
            except MemoryError as e:
                err = e
            except Exception as e:
                err = e
            rise = WK.rss_peak_kb() - r0
            peaks[label] = rise // 1024
            obs["phases_measured"] += 1
            obs["bytes_streamed_mib"] += case["mib"]
            cells.append("%s|%s|%s|%s" % (case["chain"], case["texture"], label, case["position"]))
            if rise > BUDGET_KB:
                viol.append({"key": "rss/%s/%s" % (label.split(":")[0], case["chain"]), "what": "%s of a %d MiB %s member (%s, %s): peak RSS rose by %d MiB (budget 700 MiB)" % (
                    label, case["mib"], case["texture"], case["chain"], case["position"], rise // 1024)})
            if err is not None:
                viol.append({"key": "phase-raises/%s/%s/%s" % (label.split(":")[0], case["chain"], type(err).__name__), "what": "%s (%s, %s) raised %s" % (label, case["chain"], case["texture"], pz.exc_sig(err))})
            return err

        if case.get("shape"):
            _run_shape(case, d, arc, filters, pw, size, measure, viol, obs)
            src = None
        else:
            src = GenStream(size, case["texture"])
        small = b"small neighbour member\n" * 40

        def write():
            with py7zr.SevenZipFile(arc, "w", filters=filters, password=pw) as z:
                if case["position"] in ("last", "between"):
                    z.writestr(small, "small-before")
                z.writef(src, "big.bin")
                if case["position"] in ("first", "between"):
                    z.writestr(small, "small-after")

        if src is not None and measure("write", write) is None:
            want_crc = src.crc
            obs["archive_mib"] = os.path.getsize(arc) >> 20
            for sink in case["sinks"]:
                if sink == "factory":
                    fac = CountFactory()

                    def ext():
                        with py7zr.SevenZipFile(arc, "r", password=pw) as z:
                            z.extractall(factory=fac)

                    if measure("extract:factory", ext) is None:
                        big = [o for n, o in fac.created if n == "big.bin"]
                        if not big or big[0].n != size or big[0].crc != want_crc:
                            viol.append({"key": "content/%s" % case["chain"], "what": "big member extracted with %r bytes / wrong CRC" % (big[0].n if big else None)})
                elif sink == "testzip":
                    res = {}

                    def tz():
                        with py7zr.SevenZipFile(arc, "r", password=pw) as z:
                            res["v"] = z.testzip()

                    if measure("testzip", tz) is None and res.get("v") is not None:
                        viol.append({"key": "testzip-flags-intact/%s" % case["chain"], "what": "testzip() returned %r on the intact big archive" % res.get("v")})
                else:
                    out = os.path.join(d, "out")

                    def dx():
                        with py7zr.SevenZipFile(arc, "r", password=pw) as z:
                            z.extractall(out)

                    if measure("extract:disk", dx) is None:
                        p = os.path.join(out, "big.bin")
                        if not os.path.exists(p) or os.path.getsize(p) != size:
                            viol.append({"key": "content-disk/%s" % case["chain"], "what": "big member on disk has wrong size"})
                    import shutil

                    shutil.rmtree(out, ignore_errors=True)
    # ---- classification: does the codec library alone, without any py7zr code, grow like this?
    for v in viol:
        if v["key"].startswith(("rss/extract/", "rss/testzip/")) and "DEFLATE64" in case["chain"] and _inflater_alone_grows(case["texture"]):
            v["key"] = "codec-library/inflate64-decoder-memory"
            v["what"] = "the inflate64 Inflater alone (no py7zr code) retains memory in proportion to its output for %s data; symptom here: %s" % (case["texture"], v["what"])
        if v["key"].startswith("rss/write/"):
            lib = "pyppmd" if "PPMD" in case["chain"] else ("inflate64" if "DEFLATE64" in case["chain"] else None)
            if lib and _encoder_alone_grows(lib, case["texture"]):
                v["key"] = "codec-library/%s-encoder-memory" % lib
                v["what"] = "the %s encoder alone (no py7zr code) retains about as much memory as it is fed for %s data; symptom here: %s" % (lib, case["texture"], v["what"])
    sample = {"chain": case["chain"], "texture": case["texture"], "mib": case["mib"], "position": case["position"], "peak_rise_mib": peaks, "archive_mib": obs.get("archive_mib")}
    obs["max_peak_rise_mib"] = max(peaks.values()) if peaks else 0
    if viol:
        seen = {}
        for v in viol:
            seen.setdefault(v["key"], v)
        return K.result("violated", violations=list(seen.values()), cells=cells, obs=obs, sample=sample)
    return K.result("held", cells=cells, obs=obs, sample=sample)


def _run_shape(case, d, arc, filters, pw, size, measure, viol, obs):
    """Shapes a bug hunt found (third round): the budget has to hold for them as for one big member."""
    import stat

    import py7zr
    from py7zr import properties as P

    shape = case["shape"]
    tag = "%s (%s, %d MiB %s)" % (shape, case["chain"], case["mib"], case["texture"])

    def check_big(fac, names, want):
        got = {n: o for n, o in fac.created}
        for n in names:
            if n not in got or got[n].n != want[n][0] or got[n].crc != want[n][1]:
                viol.append({"key": "content/%s/%s" % (shape, case["chain"]), "what": "%s: member %r delivered with %r bytes or a wrong CRC" % (tag, n, got[n].n if n in got else None)})

    if shape == "tiny-before-big":
        # many one-byte members in front of a member whose packed form is larger than the budget: every call that asks for one byte
        # must not pull another block of packed input into the decoder
        src = GenStream(size, case["texture"])

        def write():
            with py7zr.SevenZipFile(arc, "w", filters=filters, password=pw) as z:
                for i in range(900):
                    z.writestr(b"x", "tiny/%05d.txt" % i)
                z.writef(src, "big.bin")

        if measure("write", write) is not None:
            return
        obs["archive_mib"] = os.path.getsize(arc) >> 20
        for label, opener in (("extract:factory", lambda: py7zr.SevenZipFile(open(arc, "rb"), "r", password=pw)), ("testzip", lambda: py7zr.SevenZipFile(arc, "r", password=pw))):
            fac = CountFactory()
            res = {}

            def run():
                with opener() as z:
                    if label == "testzip":
                        res["v"] = z.testzip()
                    else:
                        z.extractall(factory=fac)

            if measure(label, run) is None:
                if label == "testzip" and res.get("v") is not None:
                    viol.append({"key": "testzip-flags-intact/%s" % case["chain"], "what": "%s: testzip() returned %r" % (tag, res["v"])})
                elif label != "testzip":
                    check_big(fac, ["big.bin"], {"big.bin": (size, src.crc)})
    elif shape == "many-folders":
        # four folders (one create and three append sessions), opened by name: one worker per folder, all at once
        want = {}
        srcs = []

        def write():
            for i in range(4):
                s_ = GenStream(size, case["texture"], seed=i + 1)
                with py7zr.SevenZipFile(arc, "w" if i == 0 else "a", filters=filters, password=pw) as z:
                    z.writef(s_, "big%d.bin" % i)
                want["big%d.bin" % i] = (size, s_.crc)

        if measure("write", write) is not None:
            return
        obs["archive_mib"] = os.path.getsize(arc) >> 20
        out = os.path.join(d, "out")

        def dx():
            with py7zr.SevenZipFile(arc, "r", password=pw) as z:
                z.extractall(out)

        if measure("extract:disk", dx) is None:
            for n in want:
                p_ = os.path.join(out, n)
                if not os.path.exists(p_) or os.path.getsize(p_) != size:
                    viol.append({"key": "content-disk/%s/%s" % (shape, case["chain"]), "what": "%s: %r on disk has a wrong size" % (tag, n)})
        import shutil

        shutil.rmtree(out, ignore_errors=True)
        res = {}

        def tz():
            with py7zr.SevenZipFile(arc, "r", password=pw) as z:
                res["v"] = z.testzip()

        if measure("testzip", tz) is None and res.get("v") is not None:
            viol.append({"key": "testzip-flags-intact/%s" % case["chain"], "what": "%s: testzip() returned %r" % (tag, res["v"])})
    elif shape == "link-of-member-size":
        # a small archive whose large member carries the link attribute: raising is fine, decoding it whole into memory is not
        src = GenStream(size, case["texture"])
        with py7zr.SevenZipFile(arc, "w", filters=filters, password=pw) as z:
            z.writef(src, "lnk")
            z.header.files_info.files[-1]["attributes"] = stat.FILE_ATTRIBUTE_ARCHIVE | stat.FILE_ATTRIBUTE_REPARSE_POINT | 0x8000 | ((stat.S_IFLNK | 0o777) << 16)
        obs["archive_mib"] = os.path.getsize(arc) >> 20
        out = os.path.join(d, "out")
        res = {}

        def dx():
            try:
                with py7zr.SevenZipFile(arc, "r", password=pw) as z:
                    res["link"] = z.files[0].is_symlink
                    z.extractall(out)
                res["outcome"] = "extracted"
            except MemoryError:
                raise
            except Exception as e:
                res["outcome"] = "raised " + type(e).__name__

        measure("extract:disk", dx)
        obs["link_members_seen"] = 1 if res.get("link") else 0
        if not res.get("link"):
            viol.append({"key": "harness/link-attribute-lost", "what": "%s: the member does not read back as a link" % tag})
    elif shape == "big-dictionaries":
        # 14 folders (sessions), each packed with a 64 MiB dictionary (7-Zip 'ultra'): a decoder's dictionary belongs to its folder
        # while the folder is being read, not to the archive for the rest of the session (sixth hunt)
        filt = [{"id": P.FILTER_LZMA2, "preset": 1, "dict_size": 64 << 20}]
        want = {}

        def write():
            for i in range(14):
                s_ = GenStream(size, "zeros", seed=i + 1)
                with py7zr.SevenZipFile(arc, "w" if i == 0 else "a", filters=filt) as z:
                    z.writef(s_, "m%02d.bin" % i)
                want["m%02d.bin" % i] = (size, s_.crc)

        if measure("write", write) is not None:
            return
        obs["archive_mib"] = os.path.getsize(arc) >> 20
        for label, opener in (("extract:factory", lambda: py7zr.SevenZipFile(open(arc, "rb"), "r")), ("extract:factory-by-name", lambda: py7zr.SevenZipFile(arc, "r")), ("testzip", lambda: py7zr.SevenZipFile(arc, "r"))):
            fac = CountFactory()

            def run():
                with opener() as z:
                    if label == "testzip":
                        z.testzip()
                    else:
                        z.extractall(factory=fac)

            if measure(label, run) is None and label != "testzip":
                check_big(fac, sorted(want), want)
    elif shape == "many-buffers":
        # 120 members of 8 MiB given as data, the caller keeping none of them: what is stored is done with
        blob_src = GenStream(size, case["texture"])
        blob = blob_src.read(size)
        while len(blob) < size:
            blob += blob_src.read(size - len(blob))

        def write_str():
            with py7zr.SevenZipFile(arc, "w", filters=filters, password=pw) as z:
                for i in range(120):
                    z.writestr(bytes(blob), "s%03d.bin" % i)

        def write_f():
            with py7zr.SevenZipFile(arc, "w", filters=filters, password=pw) as z:
                for i in range(120):
                    z.writef(io.BytesIO(bytes(blob)), "f%03d.bin" % i)

        measure("write:writestr", write_str)
        measure("write:writef", write_f)
        obs["archive_mib"] = os.path.getsize(arc) >> 20
    elif shape == "memory-short":
        # the machine is short of memory (psutil reports 200 MB available): the extraction chunk must shrink, not vanish
        src = GenStream(size, case["texture"])

        def write():
            with py7zr.SevenZipFile(arc, "w", filters=filters, password=pw) as z:
                z.writestr(b"first member\n", "a.txt")
                z.writef(src, "big.bin")
                z.writestr(b"last member\n", "z.txt")

        if measure("write", write) is not None:
            return
        obs["archive_mib"] = os.path.getsize(arc) >> 20

        class ShortOfMemory:
            @staticmethod
            def virtual_memory():
                class VM:
                    available = 200 * 1000 * 1000

                return VM

        o_ps, o_res = P._psutil, P._resource
        if o_ps is None or o_res is None:
            return
        P._psutil = ShortOfMemory
        try:
            obs["memory_limit_reported"] = P.get_memory_limit()
            fac = CountFactory()
            res = {}

            def ext():
                with py7zr.SevenZipFile(arc, "r", password=pw) as z:
                    z.extractall(factory=fac)

            if measure("extract:factory", ext) is None:
                check_big(fac, ["a.txt", "big.bin", "z.txt"], {"a.txt": (13, zlib.crc32(b"first member\n")), "big.bin": (size, src.crc), "z.txt": (12, zlib.crc32(b"last member\n"))})

            def tz():
                with py7zr.SevenZipFile(arc, "r", password=pw) as z:
                    res["v"] = z.testzip()

            if measure("testzip", tz) is None and res.get("v") is not None:
                viol.append({"key": "testzip-flags-intact/%s/%s" % (shape, case["chain"]), "what": "%s: testzip() returned %r on the intact archive" % (tag, res["v"])})
        finally:
            P._psutil = o_ps


def _encoder_alone_grows(lib, texture, mib=192) -> bool:
    """Feed the third-party encoder 1 MiB blocks directly and watch the RSS: True when it rises by more
    than half of what was fed (classification of a write-phase violation only)."""
    from vf.core import worker as WK

    src = GenStream(mib << 20, texture, seed=7)
    if lib == "pyppmd":
        import pyppmd

        enc = pyppmd.Ppmd7Encoder(2, 1 << 20)
        feed = enc.encode
    else:
        import inflate64

        enc = inflate64.Deflater()
        feed = enc.deflate
    r0 = WK.rss_now_kb()
    for _ in range(mib):
        feed(src.read(1 << 20))
    rise = (WK.rss_now_kb() - r0) // 1024
    try:
        enc.flush()
    except Exception:
        pass
    return rise > mib // 2


def _inflater_alone_grows(texture, mib=192) -> bool:
    """Deflate64: compress `mib` MiB with the library, then feed the Inflater alone, in a fresh process
    (so that memory freed by the compressor cannot hide the growth), in 2000-byte slices and watch the RSS."""
    import subprocess
    import sys
    import tempfile

    import inflate64

    src = GenStream(mib << 20, texture, seed=9)
    c = inflate64.Deflater()
    packed = b"".join(c.deflate(src.read(1 << 20)) for _ in range(mib)) + c.flush()
    code = (
        "import inflate64,sys\n"
        "def rss():\n"
        "    for l in open('/proc/self/status'):\n"
        "        if l.startswith('VmRSS'): return int(l.split()[1])//1024\n"
        "p=open(sys.argv[1],'rb').read(); d=inflate64.Inflater(); r0=rss()\n"
        "for i in range(0,len(p),2000): d.inflate(p[i:i+2000])\n"
        "print(rss()-r0)\n"
    )
    with tempfile.NamedTemporaryFile(prefix="vf-c20-probe-", suffix=".bin") as f:
        f.write(packed)
        f.flush()
        try:
            out = subprocess.run([sys.executable, "-c", code, f.name], capture_output=True, text=True, timeout=600).stdout.strip()
            rise = int(out)
        except Exception:
            return False
    return rise > mib // 3


def on_abnormal(case, kind, info):
    if kind.startswith("crash:") and "KILL" in kind:
        return K.result("violated", key="killed/%s" % case["chain"], what="worker was killed while streaming a %d MiB member (%s, %s): out of memory" % (case["mib"], case["chain"], case["texture"]))
    if kind == "cpu-budget":
        return K.result("inconclusive", key="too-slow/%s" % case["chain"], what="case exceeded its CPU budget (%s %s)" % (case["chain"], case["texture"]))
    return None


def evidence_extra(results, tier):
    peaks = {}
    for case, res in results:
        s = res.get("sample") or {}
        for ph, v in (s.get("peak_rise_mib") or {}).items():
            peaks["%s|%s|%s" % (s.get("chain"), s.get("texture"), ph)] = v
    return {"peak_rise_mib_by_case": peaks}
