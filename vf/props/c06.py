"""C06 — reader conformance: archives emitted by the independent reference writer (ground truth by
construction) and the third-party fixtures must be read by py7zr as the format defines them."""
import glob
import io
import os
import random

from vf.core import pz
from vf.gen import layouts as L
from vf.mon import contracts
from vf.props import common as K
from vf.ref7z import reader as R
from vf.ref7z import writer as W

LEVEL = "exploration"
CASE_TIMEOUT = 300
CPU_BUDGET = 120
REQUIRED_OBS = ["layouts_read", "members_compared"]
RULE = ("logical archive L x physical layout P (feature vector: folder partition, coder chain per folder, position of empty-stream "
        "entries, empty files/dirs/symlinks, NumUnpackStream explicit, CRC placement sub/folder/both/none/partial, packed CRCs, packpos, "
        "kDummy, EmptyFile vector, attribute/time vectors all/partial/none, ctime/atime, header raw/LZMA/LZMA+crc/copy/AES, non-minimal "
        "NUMBERs, ...) -> ref7z.writer -> py7zr (opened by path or stream): names, kinds, sizes, mtime/ctime/atime, attributes, bytes "
        "(factory and disk). Plus all fixture archives: py7zr vs reference reader. A failing case is reduced by feature ablation; the "
        "minimal failing feature set + failure kind is the mechanism key. Cell = sorted non-default features (truncated) + header kind.")
ASSUMPTIONS = ["every layout feature used is legal under the 7z format (Appendix A of DESIGN.md)",
               "the reference writer's output is first parsed by the reference reader; a case the reference pair itself cannot round-trip is dropped as harness-inconclusive"]

FIXTURE_PW = {"encrypted_1.7z": "secret", "encrypted_2.7z": "secret", "encrypted_3.7z": "secret", "encrypted_5.7z": "secret",
              "encrypted_6.7z": "secret", "filename_encryption.7z": "hello"}
FIXTURE_SKIP = {"crc_corrupted.7z", "data_corrupted.7z", "encrypted_4.7z"}  # deliberately damaged / no password known


def cases(rng, tier):
    out = []
    n = 500 if tier == "quick" else 12000
    # one-feature-at-a-time cases first: every feature value alone on top of the defaults
    singles = [
        {"folders": "multi"}, {"folders": "per-file"}, {"empties": "start", "has_dir": True, "has_emptyfile": True},
        {"empties": "interleaved", "has_dir": True, "has_emptyfile": True, "folders": "multi"}, {"has_emptyfile": True}, {"has_dir": True},
        {"has_symlink": True}, {"numunpack_explicit": True}, {"crc": "folder"}, {"crc": "both"}, {"crc": "none"}, {"crc": "partial"},
        {"crc": "folder", "folders": "multi"}, {"pack_crc": True}, {"packpos": 7}, {"dummy": 0}, {"dummy": 300}, {"emptyfile_vec": "always", "has_dir": True},
        {"attr": "partial"}, {"attr": "none"}, {"mtime": "partial"}, {"mtime": "none"}, {"ctime": True}, {"atime": True}, {"header": "raw"},
        {"header": "lzma"}, {"header": "copy"}, {"header": "aes"}, {"header": "lzma+aes"}, {"nonminimal": 2}, {"explicit_defvec": True},
        {"unicode_names": True}, {"dir_attr": False, "has_dir": True}, {"unix_attr": False}, {"zero_size_stream": True}, {"empty_folder": True},
        {"version_minor": 2}, {"trailing": 100},
    ]
    base = {k: v for k, v in L.FEATURE_DEFAULTS.items()}
    for s in singles:
        c = L.gen_case(rng, max_len=5000, force={**base, **s})
        c["features"]["chains"] = [[{"m": "LZMA2"}]] * 4
        L._fix_password(c, rng)
        c["open"] = "path" if len(out) % 2 else "stream"
        out.append({"kind": "layout", "case": c})
    for ch in L.REF_CHAINS:
        c = L.gen_case(rng, max_len=30000, force=base)
        c["features"]["chains"] = [ch] * 4
        L._fix_password(c, rng)
        c["open"] = "stream"
        out.append({"kind": "layout", "case": c})
    while len(out) < n:
        c = L.gen_case(rng, max_len=20000)
        c["open"] = rng.choice(["path", "stream"])
        out.append({"kind": "layout", "case": c})
    # unsupported coders: the defined outcome is UnsupportedCompressionMethodError
    for mid in ("04f71104", "0303011b", "04f71106", "21aa"):
        out.append({"kind": "unsupported", "id": mid})
    root = os.environ.get("VERIF_REPO", "/repo")
    for p in sorted(glob.glob(os.path.join(root, "tests", "data", "*.7z"))):
        if os.path.basename(p) not in FIXTURE_SKIP:
            out.append({"kind": "fixture", "path": p})
    return out


def worker_init():
    contracts.install()


def _read_py7zr(data, password, how, d, disk=False):
    """-> dict(names, meta[list], mem{name: bytes}, disk{name: rec})"""
    import py7zr

    res = {}
    if how == "path":
        p = os.path.join(d, "in-%d.7z" % random.getrandbits(30))
        with open(p, "wb") as f:
            f.write(data)
        src = p
    else:
        src = io.BytesIO(data)
    fac = pz.CollectFactory()
    with py7zr.SevenZipFile(src, "r", password=password) as z:
        res["names"] = z.getnames()
        meta = []
        for af in z.files:
            fp = af.file_properties()
            meta.append({"name": af.filename, "size": af.uncompressed, "is_dir": af.is_directory, "emptystream": af.emptystream,
                         "mtime": None if af.lastwritetime is None else int(af.lastwritetime),
                         "ctime": None if fp.get("creationtime") is None else int(fp["creationtime"]),
                         "atime": None if fp.get("lastaccesstime") is None else int(fp["lastaccesstime"]),
                         "attributes": fp.get("attributes"), "crc": af.crc32, "is_symlink": af.is_symlink})
        res["meta"] = meta
        z.extractall(factory=fac)
    res["mem"] = fac.as_dict()
    res["mem_creates"] = [n for n, _ in fac.created]
    if disk:
        out = os.path.join(d, "out-%d" % random.getrandbits(30))
        src2 = src if how == "path" else io.BytesIO(data)
        with py7zr.SevenZipFile(src2, "r", password=password) as z:
            z.extractall(out)
        res["disk"] = pz.walk_tree(out)
    return res


def compare(members, got, disk_ok=True):
    """members: reference logical archive (dicts with kind/data/...). Returns list of (kind, text)."""
    bad = []
    names = [m["name"] for m in members]
    if got["names"] != names:
        return [("names", "py7zr lists %r, archive holds %r" % (got["names"][:6], names[:6]))]
    for m, g in zip(members, got["meta"]):
        want_dir = m["kind"] == "dir"
        if bool(g["is_dir"]) != want_dir:
            bad.append(("isdir", "%r is a %s by the format, py7zr is_directory=%s" % (m["name"], m["kind"], g["is_dir"])))
        size = len(m["data"]) if m["kind"] in ("file", "symlink") else 0
        if g["size"] != size and not (g["size"] in (None, 0, [0]) and size == 0):
            bad.append(("size", "%r: size %r reported, %d stored" % (m["name"], g["size"], size)))
        for key in ("mtime", "ctime", "atime"):
            if g[key] != m.get(key):
                bad.append((key, "%r: %s %r read, %r stored" % (m["name"], key, g[key], m.get(key))))
        if g["attributes"] != m.get("attributes"):
            bad.append(("attributes", "%r: attributes %r read, %r stored" % (m["name"], g["attributes"], m.get("attributes"))))
    # py7zr strips leading separators from member names on extraction (documented: test_extract_root_path_arcname)
    want_mem = {m["name"].lstrip("/"): (m["data"] if m["kind"] in ("file", "symlink") else b"") for m in members if m["kind"] != "dir"}
    for n, blob in want_mem.items():
        if n not in got["mem"]:
            bad.append(("member-not-delivered", "%r (%d bytes) not delivered by extractall(factory)" % (n, len(blob))))
        elif got["mem"][n] != blob:
            bad.append(("bytes", "%r: %d bytes delivered (crc %08x), %d stored (crc %08x)" % (n, len(got["mem"][n]), pz.crc(got["mem"][n]), len(blob), pz.crc(blob))))
    for n in got["mem"]:
        if n not in want_mem:
            kind = next((m["kind"] for m in members if m["name"] == n), "?")
            bad.append(("unexpected-product", "extractall(factory) created a product for %r (%s)" % (n, kind)))
    if "disk" in got:
        dk = got["disk"]
        for m in members:
            rec = dk.get(m["name"].rstrip("/") if m["kind"] == "dir" else m["name"])
            if rec is None:
                bad.append(("disk-missing", "%r (%s) not created on disk" % (m["name"], m["kind"])))
                continue
            want_kind = {"dir": "dir", "file": "file", "emptyfile": "file", "symlink": "link"}[m["kind"]]
            if rec["kind"] != want_kind:
                bad.append(("disk-kind", "%r is a %s in the archive, extracted as %s" % (m["name"], m["kind"], rec["kind"])))
            elif want_kind == "file" and rec["data"] != (m.get("data") or b""):
                bad.append(("disk-bytes", "%r extracted with different bytes" % m["name"]))
            elif want_kind == "link" and rec["target"].encode("utf-8") != m["data"]:
                bad.append(("disk-link", "%r link text %r, stored %r" % (m["name"], rec["target"], m["data"])))
    return bad


_DECODE_ERRORS = {"LZMAError", "ZstdError", "error", "OSError", "ValueError", "SystemError", "EOFError", "CrcError", "DecompressionError", "BufferError", "zlib.error"}


def _exc_kind(e):
    n = type(e).__name__
    if n in _DECODE_ERRORS:
        return "decode-error"
    return "raises/" + n


def _attempt(case, d, disk):
    """-> (status, failures) status in ok|fail|ref-inconclusive"""
    members, layout = L.realise(case)
    rng = random.Random(case.get("seed", 0))
    data = W.build(members, layout, password=case["password"], rng=rng)
    try:
        arc = R.parse(data, case["password"], strict_tiling=False)
        if arc.findings or arc.names() != [m["name"] for m in members]:
            return "ref-inconclusive", [("ref", str(arc.findings[:2]))], data
        for rm, m in zip(arc.members, members):
            if m["kind"] in ("file", "symlink") and rm.data != m["data"]:
                return "ref-inconclusive", [("ref", "reference pair cannot round-trip %r" % m["name"])], data
    except Exception as e:
        return "ref-inconclusive", [("ref", pz.exc_sig(e))], data
    import threading

    from vf.core import worker as WK

    try:
        with WK.inner_budget(8.0):
            got = _read_py7zr(data, case["password"], case.get("open", "stream"), d, disk)
    except WK.CpuBudget:
        if threading.active_count() > 1:
            raise  # a worker thread is still spinning: this process cannot go on
        return "fail", [("hang", "reading did not finish within its CPU budget (spin)")], data
    except Exception as e:
        return "fail", [(_exc_kind(e), pz.exc_sig(e))], data
    bad = compare(members, got)
    return ("fail" if bad else "ok"), bad, data


def run_case(top):
    contracts.reset()
    obs = {}
    with pz.scratch("vf-c06-") as d:
        if top["kind"] == "layout":
            case = top["case"]
            disk = K.fs_safe_names([m["name"] for m in case["members"]])
            status, bad, data = _attempt(case, d, disk)
            nd = L.non_default_features(case)
            cell = "|".join(sorted(nd)[:8]) + "|" + case["features"]["header"] + "|" + case.get("open", "stream")
            sample = {"features": {k: case["features"][k] for k in nd if k in case["features"]}, "chains": [L.chain_label(c) for c in case["features"]["chains"][:3]],
                      "members": [(m["name"][:20], m["kind"]) for m in case["members"]][:6], "archive_bytes": len(data)}
            if status == "ref-inconclusive":
                return K.result("held", cell="ref-inconclusive", nontrivial=False, obs={"ref_pair_failed": 1}, sample=sample)
            obs["layouts_read"] = 1
            obs["members_compared"] = len(case["members"])
            if status == "ok":
                cnt, cv = contracts.snapshot()
                for k, v in cnt.items():
                    obs["contract:" + k] = v
                if cv:
                    return K.result("violated", violations=[{"key": "contract/" + n, "what": m} for n, m in cv[:3]], cell=cell, obs=obs, sample=sample)
                return K.result("held", cell=cell, obs=obs, sample=sample)
            # ---- feature ablation: greedy reduction to a 1-minimal failing feature set
            kind0 = bad[0][0]
            cur = case
            runs = 0
            for _pass in range(2):
                for feat in L.non_default_features(cur):
                    if feat not in L.non_default_features(cur):
                        continue
                    trial = L.reset(cur, feat)
                    st, b2, _ = _attempt(trial, d, disk)
                    runs += 1
                    if st == "fail" and b2 and b2[0][0] == kind0:
                        cur = trial
            obs["ablation_runs"] = runs
            minimal = L.non_default_features(cur)
            labels = []
            for ft in minimal:
                if ft.startswith("chain"):
                    labels.append("chain=" + L.chain_label(cur["features"]["chains"][int(ft[5:])]))
                elif isinstance(cur["features"][ft], bool):
                    labels.append(ft)
                else:
                    labels.append("%s=%s" % (ft, cur["features"][ft] if not isinstance(cur["features"][ft], int) or ft in ("version_minor",) else ">0" if cur["features"][ft] else "0"))
            key = "%s|%s" % (kind0, "+".join(sorted(set(labels))) or "defaults")
            return K.result("violated", key=key, what="%s (first failure: %s). Minimal failing features: %s" % (kind0, bad[0][1][:200], sorted(set(labels))),
                            cell=cell, obs=obs, sample=sample, detail={"all_failures": [b[0] for b in bad][:10], "minimal_case": cur})
        if top["kind"] == "unsupported":
            import py7zr

            members = [{"name": "x", "kind": "file", "data": b"payload" * 20, "mtime": None, "attributes": 0x20}]
            data = W.build(members, {"folders": [{"n": 1, "chain": [{"m": "RAW", "id": top["id"]}], "crc": "sub"}], "header": "raw"})
            try:
                with py7zr.SevenZipFile(io.BytesIO(data)) as z:
                    z.extractall(factory=pz.CollectFactory())
                return K.result("violated", key="unsupported-coder-accepted", what="coder id %s: extraction returned normally" % top["id"], cell="unsupported|" + top["id"])
            except py7zr.exceptions.UnsupportedCompressionMethodError:
                return K.result("held", cell="unsupported|" + top["id"], obs={"unsupported_rejected": 1}, sample={"unsupported": top["id"]})
            except Exception as e:
                return K.result("violated", key="unsupported-coder/%s" % type(e).__name__, what="coder id %s: %s instead of UnsupportedCompressionMethodError" % (top["id"], pz.exc_sig(e)), cell="unsupported|" + top["id"])
        # ---- fixture: py7zr vs reference reader
        p = top["path"]
        base = os.path.basename(p)
        pw = FIXTURE_PW.get(base)
        with open(p, "rb") as f:
            data = f.read()
        try:
            arc = R.parse(data, pw, strict_tiling=False)
            ref_err = None
        except R.RefUnsupported as e:
            arc, ref_err = None, "unsupported"
        except Exception as e:
            arc, ref_err = None, pz.exc_sig(e)
        import py7zr

        try:
            got = _read_py7zr(data, pw, "stream", d, False)
            py_err = None
        except py7zr.exceptions.UnsupportedCompressionMethodError as e:
            got, py_err = None, "unsupported"
        except Exception as e:
            got, py_err = None, pz.exc_sig(e)
        cell = "fixture|" + base
        sample = {"fixture": base, "ref": ref_err or "ok", "py7zr": py_err or "ok"}
        obs["fixtures_compared"] = 1
        if ref_err == "unsupported":
            if py_err == "unsupported":
                return K.result("held", cell=cell, obs=obs, sample=sample)
            return K.result("violated", key="fixture-unsupported-mismatch", what="%s uses an unsupported coder; py7zr: %s" % (base, py_err or "read it"), cell=cell, obs=obs)
        if ref_err:
            return K.result("held", cell=cell, nontrivial=False, obs={"fixture_ref_cannot_read": 1}, sample=sample)
        if py_err:
            return K.result("violated", key="fixture-raises/%s" % base, what="%s: py7zr raised %s, reference reader reads %d members" % (base, py_err, len(arc.members)), cell=cell, obs=obs)
        members = []
        for m in arc.members:
            kind = "dir" if m.is_dir else ("symlink" if m.is_symlink else ("file" if m.has_stream else "emptyfile"))
            members.append({"name": (m.name or "").replace("\\", "/"), "kind": kind, "data": m.data, "mtime": m.mtime, "ctime": m.ctime, "atime": m.atime, "attributes": m.attributes})
        if any(m["name"] == "" for m in members):
            return K.result("held", cell=cell, nontrivial=False, obs={"fixture_nameless": 1}, sample=sample)
        if len(set(m["name"] for m in members)) != len(members):
            return K.result("held", cell=cell, nontrivial=False, obs={"fixture_duplicate_names": 1}, sample=sample)
        bad = compare(members, got)
        obs["members_compared"] = len(members)
        obs["layouts_read"] = 1
        if bad:
            return K.result("violated", key="fixture/%s/%s" % (bad[0][0], base), what="%s: %s" % (base, bad[0][1][:300]), cell=cell, obs=obs, sample=sample)
        return K.result("held", cell=cell, obs=obs, sample=sample)


def on_abnormal(case, kind, info):
    if kind in ("cpu-budget", "deadlock"):
        what = case.get("path") or str(L.non_default_features(case["case"]) if case.get("case") else case)
        return K.result("violated", key="hang/" + kind, what="reading a valid archive did not finish (%s): %s" % (kind, what[:300]))
    return None
