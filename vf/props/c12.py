"""C12 — read sessions are repeatable and never modify the archive (history + model: fresh-session table)."""
import hashlib
import io
import itertools
import os
import random
import threading

from vf.core import pz
from vf.gen import damage as D
from vf.props import common as K
from vf.props import corpus

LEVEL = "exploration"
CASE_TIMEOUT = 900
CPU_BUDGET = 800
REQUIRED_OBS = ["sessions", "calls_compared_with_fresh", "file_hash_checks", "stream_write_log_checks"]
OPS = ["getnames", "list", "getinfo", "archiveinfo", "test", "testzip", "extractall_mem", "extractall_disk", "extract", "reset", "needs_password"]
DECODING = {"extractall_mem", "extractall_disk", "extract", "testzip"}
NEEDS_RESET = {"extractall_mem", "extractall_disk", "extract"}
RULE = ("call sequences over {getnames, list, getinfo, archiveinfo, test, testzip, extractall(factory), extractall(path), extract(T), reset, needs_password} "
        "obeying the quantifier's grammar (an extract/extractall after an earlier decoding call needs a reset() in between; test/testzip anywhere): ALL legal "
        "sequences of length <= 3 (quick) / <= 4 (thorough) + random longer ones, on single- and multi-folder, plain and encrypted, intact and data-damaged "
        "archives, opened by path and from a stream; ended by close(), context exit, or an exception thrown from a WriterFactory. Oracle: every call's "
        "normalised result equals the same call on a freshly opened archive (exceptions compared by class); test()/testzip() verdicts right for "
        "intact/damaged; SHA-256+size of the file unchanged; no write/truncate reaches a caller-supplied stream (write log). Special shapes: the archive holds a member "
        "with its own file name and is extracted into its own directory; every folder damaged (testzip by path, 80 calls, must name what the stream session names); two "
        "members in two folders whose names spell one output path (extractall by path, 12 runs, must equal the stream session's tree); write calls on a mode 'r' session. Cell = (archive, open mode, sequence shape).")
EXHAUSTIVE = {"quick": "all legal call sequences of length <= 3 on 6 archives x {path, stream}", "thorough": "all legal call sequences of length <= 4 on 12 archives x {path, stream}"}


def legal(seq):
    decoded = False
    for op in seq:
        if op == "reset":
            decoded = False
        elif op in NEEDS_RESET and decoded:
            return False
        if op in DECODING:
            decoded = True
    return True


def cases(rng, tier):
    seed = int(os.environ.get("VERIF_SEED", "0") or 0)
    corp = corpus.get(tier, seed)
    want = ["py/default/encoded/f1", "py/default/raw/f3", "py/lzma2+aes/encoded/f3", "py/copy/encoded/f1", "py/zstd/encoded/f3", "ref/nonsolid/3", "ref/packpos/3"]
    if tier == "thorough":
        want += ["py/lzma/encoded/f1", "py/bzip2/encoded/f1", "py/ppmd/encoded/f1", "py/copy+aes/encoded/f1", "ref/copy/packcrc/raw", "ref/aes/packcrc", "py/lzma2+aes/raw/f1"]
    arcs = [a for a in corp if a["label"] in want]
    maxlen = 3 if tier == "quick" else 4
    seqs = []
    for n in range(1, maxlen + 1):
        for s in itertools.product(OPS, repeat=n):
            if legal(s):
                seqs.append(list(s))
    if tier == "thorough":
        rng.shuffle(seqs)
        seqs = seqs[:6000]
    out = []
    for a in arcs:
        for mode in ("path", "stream"):
            for i in range(0, len(seqs), 120):
                out.append({"arc": a, "open": mode, "seqs": seqs[i : i + 120], "damage": None, "end": ["close", "ctx", "exc"][(i // 120) % 3]})
            longer = []
            for _ in range(170 if tier == "quick" else 2000):
                while True:
                    s = [rng.choice(OPS) for _ in range(rng.choice([4, 5]))]
                    if legal(s):
                        break
                longer.append(s)
            for i in range(0, len(longer), 100):
                out.append({"arc": a, "open": mode, "seqs": longer[i : i + 100], "damage": None, "end": rng.choice(["close", "ctx", "exc"])})
    # data-damaged archives: the integrity verdicts must be right at any point of a session
    for a in arcs:
        if a["pack_total"] < 8:
            continue
        pos = 32 + (37 if a["label"] == "ref/packpos/3" else 0) + a["pack_total"] // 2  # inside the packed streams, behind the PackPos filler
        ver = [s for s in seqs if ("test" in s or "testzip" in s) and len(s) <= 3]
        rng.shuffle(ver)
        for mode in ("path", "stream"):
            out.append({"arc": a, "open": mode, "seqs": ver[:80], "damage": ["set", pos, (bytes.fromhex(a["hex"])[pos] ^ 0x5A)], "end": "close"})
    # shapes in which a read session can reach its own archive or depend on which worker is first
    for i in range(12 if tier == "quick" else 120):
        out.append({"kind": "special", "shape": ["self-overwrite", "multi-damage", "same-output-path", "write-in-read-mode"][i % 4], "variant": i // 4, "seed": rng.getrandbits(32)})
    # third hunt: the archive reached through a link an earlier member made; the memory the machine reports; one directory twice
    for i in range(6 if tier == "quick" else 24):
        out.append({"kind": "special", "shape": "self-overwrite-via-link", "variant": i, "seed": rng.getrandbits(32)})
    for i in range(4 if tier == "quick" else 24):
        out.append({"kind": "special", "shape": "memory-short", "variant": i, "seed": rng.getrandbits(32)})
    for i in range(2 if tier == "quick" else 6):
        out.append({"kind": "special", "shape": "extract-twice-same-dir", "variant": i, "seed": rng.getrandbits(32)})
    for i in range(3 if tier == "quick" else 9):
        out.append({"kind": "special", "shape": "self-overwrite-volume", "variant": i, "seed": rng.getrandbits(32)})
    return out


class TraceIO(io.BytesIO):
    """Caller-supplied stream that records every mutating call."""

    def __init__(self, data):
        super().__init__(data)
        self.mutations = []

    def write(self, b):
        self.mutations.append(("write", self.tell(), len(b)))
        return super().write(b)

    def truncate(self, size=None):
        self.mutations.append(("truncate", size))
        return super().truncate(size)

    def writelines(self, lines):
        self.mutations.append(("writelines",))
        return super().writelines(lines)


class Boom(Exception):
    pass


class BoomFactory(pz.CollectFactory):
    def create(self, filename):
        raise Boom("factory refuses")


def _norm_call(z, op, names, d, counter):
    """Execute one call and return a normalised, comparable result."""
    import py7zr  # noqa

    if op == "getnames":
        return z.getnames()
    if op == "list":
        return [(f.filename, f.uncompressed, bool(f.is_directory), f.crc32) for f in z.list()]
    if op == "getinfo":
        return z.getinfo(names[0]).filename if names else None
    if op == "archiveinfo":
        ai = z.archiveinfo()
        return (ai.size, ai.blocks, bool(ai.solid), list(ai.method_names), ai.uncompressed)
    if op == "test":
        return z.test()
    if op == "testzip":
        return z.testzip()
    if op == "extractall_mem":
        fac = pz.CollectFactory()
        z.extractall(factory=fac)
        return {n: pz.crc(b) for n, b in fac.as_dict().items()}
    if op == "extractall_disk":
        counter[0] += 1
        out = os.path.join(d, "x%d" % counter[0])
        z.extractall(out)
        return {p: (r["kind"], r.get("crc")) for p, r in pz.walk_tree(out).items()}
    if op == "extract":
        fac = pz.CollectFactory()
        z.extract(targets=names[-1:] + ["absent"], factory=fac)
        return {n: pz.crc(b) for n, b in fac.as_dict().items()}
    if op == "reset":
        return z.reset()
    if op == "needs_password":
        return bool(z.needs_password())
    raise ValueError(op)


def _run_special(case):
    import py7zr

    from vf.ref7z import writer as W

    r = random.Random(case["seed"])
    shape, var = case["shape"], case["variant"]
    viol = []
    obs = {k: 0 for k in REQUIRED_OBS}
    obs["special_shapes"] = 1

    def fmem(name, data, i=0):
        return {"name": name, "kind": "file", "data": data, "attributes": 0x20 | 0x8000 | (0o100644 << 16), "mtime": 132000000000000000 + i}

    with pz.scratch("vf-c12s-") as d:
        if shape == "self-overwrite":
            # the archive lies in the directory it is extracted into and holds a member with the archive's own name
            aname = ["backup.7z", "data", "a.b.7z"][var % 3]
            kind = ["file", "symlink", "emptyfile"][(var // 3) % 3]
            mem = [fmem("first.txt", b"first" * 10)]
            if kind == "file":
                mem.append(fmem(aname, b"PAYLOAD-OF-THE-MEMBER" * 5, 1))
            elif kind == "symlink":
                mem.append({"name": aname, "kind": "symlink", "data": b"first.txt", "attributes": 0x20 | 0x400 | 0x8000 | (0o120777 << 16), "mtime": 132000000000000001})
            else:
                mem.append({"name": aname, "kind": "emptyfile", "attributes": 0x20 | 0x8000 | (0o100644 << 16), "mtime": 132000000000000001})
            mem.append(fmem("last.txt", b"last" * 10, 2))
            nstream = sum(1 for m in mem if m["kind"] in ("file", "symlink"))
            data = W.build(mem, {"folders": [{"n": nstream, "chain": [{"m": "COPY"}], "crc": "sub"}], "header": "raw"})
            path = os.path.join(d, aname)
            for how in ("path", "fileobj"):
                for call in ("extractall", "extract"):
                    with open(path, "wb") as f:
                        f.write(data)
                    h0 = hashlib.sha256(data).hexdigest()
                    fobj = None
                    try:
                        src = path if how == "path" else open(path, "rb")
                        fobj = None if how == "path" else src
                        with py7zr.SevenZipFile(src, "r") as z:
                            if call == "extractall":
                                z.extractall(path=d)
                            else:
                                z.extract(path=d, targets=[aname])
                        outcome = "completed"
                    except Exception as e:
                        outcome = "raised " + type(e).__name__
                    finally:
                        if fobj is not None:
                            fobj.close()
                    obs["file_hash_checks"] += 1
                    obs["sessions"] += 1
                    try:
                        st = os.lstat(path)
                        now = None if not os.path.isfile(path) or os.path.islink(path) else hashlib.sha256(open(path, "rb").read()).hexdigest()
                    except OSError:
                        now = None
                    if now != h0:
                        what = "is gone or no longer a regular file" if now is None else "has other contents (%d bytes)" % os.path.getsize(path)
                        viol.append({"key": "archive-modified/self-overwrite/%s" % kind, "what": "archive %r holding a %s member %r, opened by %s, %s into its own directory (%s): the archive %s" % (
                            aname, kind, aname, how, call, outcome, what)})
                    for fn in os.listdir(d):
                        p_ = os.path.join(d, fn)
                        if os.path.islink(p_) or os.path.isfile(p_):
                            os.unlink(p_)
            cell = "special|self-overwrite|%s" % kind
        elif shape == "multi-damage":
            # every folder damaged: which member testzip() names must not depend on which worker finishes first
            nf = 3 + var % 3
            mem = [fmem("f%d.bin" % i, r.randbytes(3000 + 500 * i), i) for i in range(nf)]
            data = bytearray(W.build(mem, {"folders": [{"n": 1, "chain": [{"m": "COPY"}], "crc": "sub"} for _ in mem], "header": "raw"}))
            pos = 32
            for m in mem:
                data[pos + len(m["data"]) // 2] ^= 0x41
                pos += len(m["data"])
            data = bytes(data)
            path = os.path.join(d, "dmg.7z")
            with open(path, "wb") as f:
                f.write(data)
            with py7zr.SevenZipFile(io.BytesIO(data), "r") as z:
                want = z.testzip()
            got = {}
            for i in range(40):
                with py7zr.SevenZipFile(path, "r") as z:
                    v = z.testzip()
                    got[v] = got.get(v, 0) + 1
                    z.reset()
                    v = z.testzip()
                    got[v] = got.get(v, 0) + 1
                obs["sessions"] += 1
                obs["calls_compared_with_fresh"] += 2
            if want is None or set(got) != {want}:
                viol.append({"key": "verdict-not-repeatable/testzip/multi-damage", "what": "%d folders, each damaged: testzip() from a stream names %r; by path, 80 calls: %r" % (nf, want, got)})
            cell = "special|multi-damage|f%d" % nf
        elif shape == "self-overwrite-via-link":
            # the archive lies below the destination; a link made by an earlier member leads a later member onto it (third hunt)
            sub, aname = ["sub", "deep/er"][var % 2], "a.7z"
            kind = ["file", "symlink", "emptyfile"][(var // 2) % 3]
            mem = [{"name": "lnk", "kind": "symlink", "data": sub.encode(), "attributes": 0x20 | 0x400 | 0x8000 | (0o120777 << 16), "mtime": 132000000000000000}]
            if kind == "file":
                mem.append(fmem("lnk/" + aname, b"PAYLOAD-OF-THE-MEMBER" * 3, 1))
            elif kind == "symlink":
                mem.append({"name": "lnk/" + aname, "kind": "symlink", "data": b"nowhere", "attributes": 0x20 | 0x400 | 0x8000 | (0o120777 << 16), "mtime": 132000000000000001})
            else:
                mem.append({"name": "lnk/" + aname, "kind": "emptyfile", "attributes": 0x20 | 0x8000 | (0o100644 << 16), "mtime": 132000000000000001})
            nstream = sum(1 for m in mem if m["kind"] in ("file", "symlink"))
            data = W.build(mem, {"folders": [{"n": nstream, "chain": [{"m": "COPY"}], "crc": "sub"}], "header": "raw"})
            h0 = hashlib.sha256(data).hexdigest()
            for how in ("path", "fileobj"):
                out = os.path.join(d, "out-" + how)
                os.makedirs(os.path.join(out, sub))
                path = os.path.join(out, sub, aname)
                with open(path, "wb") as f:
                    f.write(data)
                fobj = None
                try:
                    src = path if how == "path" else open(path, "rb")
                    fobj = None if how == "path" else src
                    with py7zr.SevenZipFile(src, "r") as z:
                        z.extractall(path=out)
                    outcome = "completed"
                except Exception as e:
                    outcome = "raised " + type(e).__name__
                finally:
                    if fobj is not None:
                        fobj.close()
                obs["file_hash_checks"] += 1
                obs["sessions"] += 1
                now = None if not os.path.isfile(path) or os.path.islink(path) else hashlib.sha256(open(path, "rb").read()).hexdigest()
                if now != h0:
                    what = "is gone or no longer a regular file" if now is None else "has other contents (%d bytes)" % os.path.getsize(path)
                    viol.append({"key": "archive-modified/self-overwrite-via-link/%s" % kind, "what": "archive at <out>/%s/%s with members 'lnk' -> %r and a %s member 'lnk/%s', opened by %s, extractall(<out>) (%s): the archive %s" % (
                        sub, aname, sub, kind, aname, how, outcome, what)})
            cell = "special|self-overwrite-via-link|%s" % kind
        elif shape == "self-overwrite-volume":
            # an archive in volumes, a member named like one of them, extracted into the volumes' own directory (fifth hunt)
            import multivolumefile

            base = os.path.join(d, "arc.7z")
            victim = "arc.7z.%04d" % (1 + var % 3)
            with multivolumefile.open(base, "wb", volume=2048) as mv:
                with py7zr.SevenZipFile(mv, "w", filters=[{"id": py7zr.FILTER_COPY}]) as z:
                    z.writestr(r.randbytes(7000), "payload.bin")
                    z.writestr(b"a member named like a volume " * 3, victim)
            vols = sorted(fn for fn in os.listdir(d) if fn.startswith("arc.7z."))
            h0 = {fn: hashlib.sha256(open(os.path.join(d, fn), "rb").read()).hexdigest() for fn in vols}
            try:
                with multivolumefile.open(base, "rb") as mv:
                    with py7zr.SevenZipFile(mv, "r") as z:
                        z.getnames()
                        z.testzip()
                        z.reset()
                        z.extractall(path=d)
                outcome = "completed"
            except Exception as e:
                outcome = "raised " + type(e).__name__
            obs["file_hash_checks"] += len(vols)
            obs["sessions"] += 1
            h1 = {fn: (hashlib.sha256(open(os.path.join(d, fn), "rb").read()).hexdigest() if os.path.isfile(os.path.join(d, fn)) else None) for fn in vols}
            changed = [fn for fn in vols if h1[fn] != h0[fn]]
            if changed:
                viol.append({"key": "archive-modified/self-overwrite-volume", "what": "archive of %d volumes holding a member %r, read through MultiVolume in mode 'r', extractall into the volumes' directory (%s): volume(s) %r changed" % (
                    len(vols), victim, outcome, changed)})
            cell = "special|self-overwrite-volume|%s" % victim[-4:]
        elif shape == "memory-short":
            # the extraction chunk is derived from the memory the machine reports: whatever it reports, verdicts and contents are those of a fresh session
            from py7zr import properties as P

            mem = [fmem("a.txt", b"first member " * 10, 0), fmem("b.txt", r.randbytes(140), 1), fmem("c.txt", b"third" * 999, 2)]
            chain = [[{"m": "LZMA2"}], [{"m": "COPY"}], [{"m": "BZip2"}]][var % 3]
            data = W.build(mem, {"folders": [{"n": 3, "chain": chain, "crc": "sub"}], "header": "lzma+crc"})
            path = os.path.join(d, "solid.7z")
            with open(path, "wb") as f:
                f.write(data)
            want = {m["name"]: pz.crc(m["data"]) for m in mem}

            class Short:
                avail = [200_000_000, 256_000_000, 100_000_000, 256_000_003][var % 4]

                @staticmethod
                def virtual_memory():
                    class VM:
                        available = Short.avail

                    return VM

            o_ps = P._psutil
            if o_ps is not None and P._resource is not None:
                P._psutil = Short
                try:
                    obs["memory_limit_reported"] = P.get_memory_limit()
                    for how in ("path", "stream"):
                        try:
                            with py7zr.SevenZipFile(path if how == "path" else io.BytesIO(data), "r") as z:
                                tz = z.testzip()
                                z.reset()
                                fac = pz.CollectFactory()
                                z.extractall(factory=fac)
                                t2 = z.test()
                            got = {n: pz.crc(b) for n, b in fac.as_dict().items()}
                            if tz is not None or t2 is False:
                                viol.append({"key": "verdict-wrong-on-intact/memory-short", "what": "psutil reports %d bytes available (chunk %r): testzip() -> %r, test() -> %r on an intact solid archive (%s)" % (
                                    Short.avail, obs["memory_limit_reported"], tz, t2, how)})
                            if got != want:
                                viol.append({"key": "extractall-differs-from-fresh/memory-short", "what": "psutil reports %d bytes available: extractall delivers %r" % (Short.avail, {k: len(v) for k, v in fac.as_dict().items()})})
                        except Exception as e:
                            viol.append({"key": "intact-archive-raises/memory-short/%s" % type(e).__name__, "what": "psutil reports %d bytes available (chunk %r): %s session on an intact solid archive raised %s" % (
                                Short.avail, obs["memory_limit_reported"], how, pz.exc_sig(e))})
                        obs["sessions"] += 1
                        obs["calls_compared_with_fresh"] += 3
                finally:
                    P._psutil = o_ps
            cell = "special|memory-short|%d" % (var % 4)
        elif shape == "extract-twice-same-dir":
            # the same directory twice in one session: multi-volume source; a link member whose target does not exist
            import multivolumefile

            mem = [{"name": "lnk", "kind": "symlink", "data": b"later/target.txt", "attributes": 0x20 | 0x400 | 0x8000 | (0o120777 << 16), "mtime": 132000000000000000}, fmem("a.txt", b"aaa" * 50, 1)]
            if var % 2:
                mem = [fmem("a.txt", b"aaa" * 50, 1), fmem("d/b.txt", b"bbb" * 50, 2)]
            data = W.build(mem, {"folders": [{"n": 2, "chain": [{"m": "COPY"}], "crc": "sub"}], "header": "raw"})
            vols = os.path.join(d, "v.7z")
            step = max(40, len(data) // 3 + 1)
            for i in range(0, len(data), step):
                with open("%s.%04d" % (vols, i // step + 1), "wb") as f:
                    f.write(data[i : i + step])
            with open(os.path.join(d, "plain.7z"), "wb") as f:
                f.write(data)
            for how in ("path", "stream", "multivolume"):
                out = os.path.join(d, "out-" + how)
                res = []
                mv = None
                try:
                    if how == "multivolume":
                        mv = multivolumefile.open(vols, "rb")
                    src = os.path.join(d, "plain.7z") if how == "path" else (io.BytesIO(data) if how == "stream" else mv)
                    with py7zr.SevenZipFile(src, "r") as z:
                        for k in range(2):
                            try:
                                z.extractall(out)
                                res.append(json_key({p_: (r_["kind"], r_.get("target"), pz.crc(r_["data"]) if r_.get("data") is not None else None) for p_, r_ in pz.walk_tree(out).items()}))
                            except Exception as e:
                                res.append("raised " + pz.exc_sig(e)[:80])
                            z.reset()
                finally:
                    if mv is not None:
                        mv.close()
                obs["sessions"] += 1
                obs["calls_compared_with_fresh"] += 2
                if len(res) != 2 or res[0] != res[1]:
                    viol.append({"key": "extractall-not-repeatable/same-directory/%s" % ("dangling-link" if not var % 2 else how), "what": "%s source, members %r: extractall(p), reset(), extractall(p): first %s, second %s" % (
                        how, [m["name"] for m in mem], res[0][:100] if res else None, res[1][:100] if len(res) > 1 else None)})
            cell = "special|extract-twice-same-dir|%d" % (var % 2)
        elif shape == "same-output-path":
            # two members in different folders whose names are different spellings of one output path
            big = r.randbytes(2_500_000)
            alt = ["x/../a.txt", "./a.txt", "x/.././a.txt"][var % 3]
            mem = [fmem("a.txt", big, 0), fmem(alt, b"small-one" * 3, 1)]
            data = W.build(mem, {"folders": [{"n": 1, "chain": [{"m": "COPY"}], "crc": "sub"}, {"n": 1, "chain": [{"m": "COPY"}], "crc": "sub"}], "header": "raw"})
            path = os.path.join(d, "two.7z")
            with open(path, "wb") as f:
                f.write(data)

            def tree(src, out):
                try:
                    with py7zr.SevenZipFile(src, "r") as z:
                        z.extractall(out)
                    return {p_: (r_["kind"], hashlib.sha256(r_.get("data") or b"").hexdigest()[:12]) for p_, r_ in pz.walk_tree(out).items()}
                except Exception as e:
                    return "raised " + type(e).__name__

            want = tree(io.BytesIO(data), os.path.join(d, "seq"))
            outcomes = {}
            for i in range(12):
                t = tree(path, os.path.join(d, "par%d" % i))
                outcomes[json_key(t)] = outcomes.get(json_key(t), 0) + 1
                obs["sessions"] += 1
                obs["calls_compared_with_fresh"] += 1
            if set(outcomes) != {json_key(want)}:
                viol.append({"key": "extractall-not-repeatable/same-output-path", "what": "members 'a.txt' and %r in two folders: extractall(path) from a stream gives %s; by path, 12 runs: %r" % (
                    alt, json_key(want)[:120], {k[:80]: v for k, v in outcomes.items()})})
            cell = "special|same-output-path|%s" % alt
        else:
            mem = [fmem("a.txt", b"aaaa" * 100)]
            data = W.build(mem, {"folders": [{"n": 1, "chain": [{"m": "LZMA2"}], "crc": "sub"}], "header": "lzma+crc"})
            t = TraceIO(data)
            src_file = os.path.join(d, "src.txt")
            with open(src_file, "wb") as f:
                f.write(b"source")
            with py7zr.SevenZipFile(t, "r") as z:
                for call in ("writestr", "writef", "write", "writeall"):
                    try:
                        if call == "writestr":
                            z.writestr(b"x" * 50, "new.txt")
                        elif call == "writef":
                            z.writef(io.BytesIO(b"y" * 50), "new2.txt")
                        elif call == "write":
                            z.write(src_file, "new3.txt")
                        else:
                            z.writeall(src_file, "new4.txt")
                        viol.append({"key": "write-accepted-in-read-mode/%s" % call, "what": "%s() on a session opened with mode 'r' returned normally; names now %r" % (call, z.getnames())})
                    except Exception:
                        obs["writes_refused_in_read_mode"] = obs.get("writes_refused_in_read_mode", 0) + 1
            obs["stream_write_log_checks"] += 1
            obs["sessions"] += 1
            if t.mutations or t.getvalue() != data:
                viol.append({"key": "stream-mutated/write-in-read-mode", "what": "write calls on a mode 'r' session changed the caller's stream: %r" % t.mutations[:3]})
            cell = "special|write-in-read-mode"
    sample = {"special": shape, "variant": var}
    if viol:
        seen = {}
        for v in viol:
            seen.setdefault(v["key"], v)
        return K.result("violated", violations=list(seen.values()), cells=[cell], obs=obs, sample=sample)
    return K.result("held", cells=[cell], obs=obs, sample=sample)


def json_key(x):
    import json

    return json.dumps(x, sort_keys=True, default=str)


def run_case(case):
    import py7zr

    from vf.core import worker as WK

    if case.get("kind") == "special":
        return _run_special(case)
    a = case["arc"]
    data = bytes.fromhex(a["hex"])
    damaged = case["damage"] is not None
    if damaged:
        data = D.apply(data, case["damage"])
    pw = a["password"]
    names = [n for n, _ in a["members"]]
    viol = []
    obs = {k: 0 for k in REQUIRED_OBS}
    obs["spins"] = 0
    cells = set()
    counter = [0]
    with pz.scratch("vf-c12-") as d:
        path = os.path.join(d, "a.7z")
        with open(path, "wb") as f:
            f.write(data)
        h0 = hashlib.sha256(data).hexdigest()

        def opener():
            if case["open"] == "path":
                return path, None
            t = TraceIO(data)
            return t, t

        # ---- model: the same call on a freshly opened archive
        fresh = {}
        for op in OPS:
            try:
                src, _ = opener()
                with WK.inner_budget(3.0):
                    with py7zr.SevenZipFile(src, "r", password=pw) as z:
                        fresh[op] = ("ok", _norm_call(z, op, names, d, counter))
            except WK.CpuBudget:
                if threading.active_count() > 1:
                    raise
                fresh[op] = ("spin", None)
            except Exception as e:
                fresh[op] = ("exc", type(e).__name__)
        # verdicts on a fresh session must themselves be right
        if not damaged:
            if fresh["testzip"] != ("ok", None):
                viol.append({"key": "fresh-testzip-wrong/%s/%s" % (case["open"], "multi" if a["folders"] > 1 else "single"),
                             "what": "%s intact, opened by %s (%d folders): fresh testzip() -> %r" % (a["label"], case["open"], a["folders"], fresh["testzip"])})
            if fresh["test"][0] != "ok" or fresh["test"][1] is False:
                viol.append({"key": "fresh-test-wrong/%s" % case["open"], "what": "%s intact: fresh test() -> %r" % (a["label"], fresh["test"])})
        for seq in case["seqs"]:
            obs["sessions"] += 1
            src, trace = opener()
            z = None
            try:
                with WK.inner_budget(4.0):
                    z = py7zr.SevenZipFile(src, "r", password=pw)
                    for i, op in enumerate(seq):
                        try:
                            got = ("ok", _norm_call(z, op, names, d, counter))
                        except WK.CpuBudget:
                            raise
                        except Exception as e:
                            got = ("exc", type(e).__name__)
                        want = fresh[op]
                        obs["calls_compared_with_fresh"] += 1
                        if op in ("test", "testzip"):
                            # verdicts must be *right*, whatever happened before
                            if got[0] == "ok":
                                if damaged:
                                    certifies = (got[1] is None) if op == "testzip" else (got[1] is True)
                                    if certifies and (a["pack_crcs"] or op == "testzip"):
                                        viol.append({"key": "verdict-certifies-damaged/%s" % op, "what": "%s damaged, %s, sequence %r: call %d %s() -> %r" % (a["label"], case["open"], seq, i, op, got[1])})
                                else:
                                    flagged = (got[1] is not None) if op == "testzip" else (got[1] is False)
                                    if flagged:
                                        viol.append({"key": "verdict-flags-intact/%s" % op, "what": "%s intact, %s, sequence %r: call %d %s() -> %r" % (a["label"], case["open"], seq, i, op, got[1])})
                            elif want[0] == "ok":
                                viol.append({"key": "verdict-raises/%s/%s/after-%s" % (op, got[1], seq[i - 1] if i else "open"),
                                             "what": "%s, %s, sequence %r: call %d %s() raised %s; a fresh session answers %r" % (a["label"], case["open"], seq, i, op, got[1], want[1])})
                        elif got != want and want[0] != "spin":
                            prev = [s for s in seq[:i] if s in DECODING or s == "reset"]
                            viol.append({"key": "differs-from-fresh/%s/after-%s" % (op, "+".join(prev[-2:]) or "nothing"),
                                         "what": "%s, %s, sequence %r: call %d %s -> %s, a fresh session gives %s" % (a["label"], case["open"], seq, i, op, _short(got), _short(want))})
                    if case["end"] == "exc":
                        try:
                            z.reset()
                            z.extractall(factory=BoomFactory())
                        except Boom:
                            pass
                        except Exception:
                            pass
            except WK.CpuBudget:
                obs["spins"] += 1
                viol.append({"key": "spin/after-%s" % ("+".join([s for s in seq if s in DECODING][:2]) or "none"),
                             "what": "%s, %s, legal sequence %r did not return within its CPU budget" % (a["label"], case["open"], seq)})
                if threading.active_count() > 1:
                    raise
            except Exception as e:
                viol.append({"key": "open-raises/%s" % type(e).__name__, "what": "%s: %s" % (a["label"], pz.exc_sig(e))})
            finally:
                if z is not None:
                    try:
                        if case["end"] == "ctx":
                            z.__exit__(None, None, None)
                        else:
                            z.close()
                    except Exception as e:
                        viol.append({"key": "close-raises/%s" % type(e).__name__, "what": "close() after %r raised %s" % (seq, pz.exc_sig(e))})
            # ---- the archive is untouched
            if trace is not None:
                obs["stream_write_log_checks"] += 1
                if trace.mutations:
                    viol.append({"key": "stream-mutated/%s" % trace.mutations[0][0], "what": "%s: sequence %r issued %r on the caller's stream" % (a["label"], seq, trace.mutations[:3])})
                elif trace.getvalue() != data:
                    viol.append({"key": "stream-bytes-changed", "what": "%s: stream content changed" % a["label"]})
            else:
                obs["file_hash_checks"] += 1
                with open(path, "rb") as f:
                    now = f.read()
                if hashlib.sha256(now).hexdigest() != h0:
                    viol.append({"key": "file-changed", "what": "%s: sequence %r changed the archive file (%d -> %d bytes)" % (a["label"], seq, len(data), len(now))})
                    with open(path, "wb") as f:
                        f.write(data)
            cells.add("%s|%s|%s|%s" % (a["label"], case["open"], "dmg" if damaged else "ok", "+".join(s[:6] for s in seq)[:48]))
            if len(viol) > 30:
                break
        obs["stream_write_log_checks"] += 0
        obs["file_hash_checks"] += 0
    sample = {"archive": a["label"], "open": case["open"], "damaged": damaged, "end": case["end"], "sequences": case["seqs"][:3]}
    # both monitors are exercised across the run, not in every case
    if viol:
        seen = {}
        for v in viol:
            seen.setdefault(v["key"], v)
        return K.result("violated", violations=list(seen.values())[:25], cells=sorted(cells), obs=obs, sample=sample)
    return K.result("held", cells=sorted(cells), obs=obs, sample=sample)


def _short(x):
    s = repr(x)
    return s if len(s) < 160 else s[:160] + "..."


def on_abnormal(case, kind, info):
    if kind in ("cpu-budget", "deadlock"):
        return K.result("violated", key="spin/worker-thread", what="%s (%s): a legal read sequence left a worker thread spinning (%s)" % (case["arc"]["label"], case["open"], kind))
    return None
