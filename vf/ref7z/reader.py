"""Strict reference reader for the 7z container. Does not import py7zr.

parse(data, password) -> Archive
  .members   ordered logical members
  .findings  structural problems that do not stop parsing (strict validation)
  .notes     observations that are legal but worth recording
  .layout    physical description
Fatal problems raise RefError (or a subclass).
"""
import zlib
from dataclasses import dataclass, field

from . import codecs
from .codecs import RefDecodeError, RefPasswordRequired, RefUnsupported  # noqa: F401
from .numbers import (
    RefError,
    RefTruncated,
    decode_bits,
    decode_defined_vector,
    decode_number,
    decode_utf16_name,
    u32,
    u64,
)

MAGIC = b"7z\xbc\xaf\x27\x1c"

K_END, K_HEADER, K_ARCPROPS, K_ADDSTREAMS, K_MAINSTREAMS, K_FILES = 0, 1, 2, 3, 4, 5
K_PACKINFO, K_UNPACKINFO, K_SUBSTREAMS, K_SIZE, K_CRC, K_FOLDER = 6, 7, 8, 9, 0x0A, 0x0B
K_CODERSUNPACK, K_NUMUNPACK, K_EMPTYSTREAM, K_EMPTYFILE, K_ANTI = 0x0C, 0x0D, 0x0E, 0x0F, 0x10
K_NAMES, K_CTIME, K_ATIME, K_MTIME, K_ATTR, K_COMMENT, K_ENCODED = 0x11, 0x12, 0x13, 0x14, 0x15, 0x16, 0x17
K_STARTPOS, K_DUMMY = 0x18, 0x19

FILE_ATTRIBUTE_DIRECTORY = 0x10
FILE_ATTRIBUTE_UNIX_EXTENSION = 0x8000


@dataclass
class Member:
    index: int
    name: str | None = None
    has_stream: bool = True
    is_empty_file: bool = False
    is_anti: bool = False
    size: int = 0
    data: bytes | None = None
    crc: int | None = None
    mtime: int | None = None
    ctime: int | None = None
    atime: int | None = None
    attributes: int | None = None
    folder: int | None = None

    @property
    def is_dir(self) -> bool:
        """A directory by the format rule: no stream and not flagged as empty file."""
        return (not self.has_stream) and (not self.is_empty_file) and (not self.is_anti)

    @property
    def unix_mode(self):
        if self.attributes is not None and self.attributes & FILE_ATTRIBUTE_UNIX_EXTENSION:
            return self.attributes >> 16
        return None

    @property
    def is_symlink(self) -> bool:
        m = self.unix_mode
        return m is not None and (m & 0o170000) == 0o120000

    def record(self):
        return {
            "name": self.name,
            "kind": "dir" if self.is_dir else ("symlink" if self.is_symlink else ("emptyfile" if not self.has_stream else "file")),
            "size": self.size,
            "crc": self.crc,
            "mtime": self.mtime,
            "ctime": getattr(self, "ctime", None),
            "atime": getattr(self, "atime", None),
            "attributes": self.attributes,
            "data_crc": None if self.data is None else zlib.crc32(self.data) & 0xFFFFFFFF,
        }


@dataclass
class Coder:
    method: bytes
    num_in: int
    num_out: int
    props: bytes | None


@dataclass
class Folder:
    coders: list
    bindpairs: list  # (in_index, out_index)
    packed_indices: list
    unpack_sizes: list = field(default_factory=list)
    crc: int | None = None
    num_substreams: int = 1

    @property
    def total_in(self):
        return sum(c.num_in for c in self.coders)

    @property
    def total_out(self):
        return sum(c.num_out for c in self.coders)

    def main_out(self) -> int:
        bound = {o for (_, o) in self.bindpairs}
        free = [i for i in range(self.total_out) if i not in bound]
        if len(free) != 1:
            raise RefError("folder has %d unbound output streams" % len(free))
        return free[0]

    def unpack_size(self) -> int:
        return self.unpack_sizes[self.main_out()]

    def method_names(self):
        return [codecs.NAMES.get(c.method, c.method.hex()) for c in self.coders]


@dataclass
class Streams:
    pack_pos: int = 0
    pack_sizes: list = field(default_factory=list)
    pack_crcs: list = field(default_factory=list)  # None when undefined
    folders: list = field(default_factory=list)
    sub_sizes: list = field(default_factory=list)  # per folder: list of sizes
    sub_crcs: list = field(default_factory=list)  # per folder: list of crc|None
    has_packinfo: bool = False
    has_unpackinfo: bool = False
    has_substreams: bool = False


@dataclass
class Archive:
    members: list = field(default_factory=list)
    findings: list = field(default_factory=list)
    notes: list = field(default_factory=list)
    layout: dict = field(default_factory=dict)
    streams: Streams | None = None

    def names(self):
        return [m.name for m in self.members]

    def records(self):
        return [m.record() for m in self.members]


class _Cur:
    """Cursor over a bytes object."""

    def __init__(self, buf, pos=0, end=None):
        self.buf = buf
        self.pos = pos
        self.end = len(buf) if end is None else end

    def byte(self):
        if self.pos >= self.end:
            raise RefTruncated("unexpected end of header")
        b = self.buf[self.pos]
        self.pos += 1
        return b

    def number(self):
        v, p = decode_number(self.buf, self.pos)
        if p > self.end:
            raise RefTruncated("NUMBER crosses end of section")
        self.pos = p
        return v

    def take(self, n):
        if n < 0 or self.pos + n > self.end:
            raise RefTruncated("need %d bytes, %d left" % (n, self.end - self.pos))
        b = self.buf[self.pos : self.pos + n]
        self.pos += n
        return bytes(b)

    def u32(self):
        v, p = u32(self.buf, self.pos)
        if p > self.end:
            raise RefTruncated("u32 crosses end")
        self.pos = p
        return v

    def u64(self):
        v, p = u64(self.buf, self.pos)
        if p > self.end:
            raise RefTruncated("u64 crosses end")
        self.pos = p
        return v

    def bits(self, n):
        v, p = decode_bits(self.buf, self.pos, n)
        if p > self.end:
            raise RefTruncated("bits cross end")
        self.pos = p
        return v

    def defined(self, n):
        v, p = decode_defined_vector(self.buf, self.pos, n)
        if p > self.end:
            raise RefTruncated("defined vector crosses end")
        self.pos = p
        return v


MAX_COUNT = 1 << 24  # sanity bound on counts the reference reader is willing to allocate for


def _check_count(n, what, cur):
    # every counted item needs at least one bit in what follows
    if n > MAX_COUNT or n > 8 * (cur.end - cur.pos) + 8:
        raise RefError("%s count %d exceeds what the header can hold" % (what, n))


def _read_digests(cur, n):
    defined = cur.defined(n)
    out = []
    for d in defined:
        out.append(cur.u32() if d else None)
    return out


def _read_packinfo(cur, st: Streams, findings):
    st.has_packinfo = True
    st.pack_pos = cur.number()
    n = cur.number()
    _check_count(n, "pack stream", cur)
    t = cur.byte()
    sizes = None
    crcs = [None] * n
    while t != K_END:
        if t == K_SIZE:
            sizes = [cur.number() for _ in range(n)]
        elif t == K_CRC:
            crcs = _read_digests(cur, n)
        else:
            raise RefError("unexpected id 0x%02x in PackInfo" % t)
        t = cur.byte()
    if sizes is None:
        if n:
            findings.append("packinfo-no-sizes| PackInfo: %d pack streams without sizes" % n)
        sizes = [0] * n
    st.pack_sizes = sizes
    st.pack_crcs = crcs


def _read_folder(cur) -> Folder:
    nc = cur.number()
    if nc == 0 or nc > 32:
        raise RefError("folder with %d coders" % nc)
    coders = []
    for _ in range(nc):
        flag = cur.byte()
        idsize = flag & 0x0F
        if flag & 0xC0:
            raise RefError("reserved coder flag bits set (0x%02x)" % flag)
        method = cur.take(idsize) or b"\x00"  # an empty id is the number 0 = Copy
        if flag & 0x10:
            ni = cur.number()
            no = cur.number()
        else:
            ni = no = 1
        props = None
        if flag & 0x20:
            ps = cur.number()
            props = cur.take(ps)
        if ni > 32 or no > 32:
            raise RefError("coder with %d/%d streams" % (ni, no))
        coders.append(Coder(method, ni, no, props))
    total_in = sum(c.num_in for c in coders)
    total_out = sum(c.num_out for c in coders)
    if total_out == 0:
        raise RefError("folder without output streams")
    bind = []
    for _ in range(total_out - 1):
        i = cur.number()
        o = cur.number()
        if i >= total_in or o >= total_out:
            raise RefError("bind pair (%d,%d) out of range" % (i, o))
        bind.append((i, o))
    num_packed = total_in - len(bind)
    if num_packed < 1:
        raise RefError("folder without packed streams")
    if num_packed == 1:
        bound_in = {i for (i, _) in bind}
        free = [i for i in range(total_in) if i not in bound_in]
        if len(free) != 1:
            raise RefError("inconsistent bind pairs")
        packed = free
    else:
        packed = [cur.number() for _ in range(num_packed)]
        if any(p >= total_in for p in packed):
            raise RefError("packed stream index out of range")
    if len({i for (i, _) in bind}) != len(bind) or len({o for (_, o) in bind}) != len(bind):
        raise RefError("duplicate stream in bind pairs")
    return Folder(coders, bind, packed)


def _read_unpackinfo(cur, st: Streams, findings):
    st.has_unpackinfo = True
    t = cur.byte()
    if t != K_FOLDER:
        raise RefError("Folder id expected in CodersInfo, got 0x%02x" % t)
    nf = cur.number()
    _check_count(nf, "folder", cur)
    ext = cur.byte()
    if ext != 0:
        raise RefUnsupported("external folder definitions")
    st.folders = [_read_folder(cur) for _ in range(nf)]
    t = cur.byte()
    if t != K_CODERSUNPACK:
        raise RefError("CodersUnpackSize id expected, got 0x%02x" % t)
    for f in st.folders:
        f.unpack_sizes = [cur.number() for _ in range(f.total_out)]
    t = cur.byte()
    if t == K_CRC:
        crcs = _read_digests(cur, nf)
        for f, c in zip(st.folders, crcs):
            f.crc = c
        t = cur.byte()
    if t != K_END:
        raise RefError("End expected after CodersInfo, got 0x%02x" % t)


def _read_substreams(cur, st: Streams, findings):
    st.has_substreams = True
    nf = len(st.folders)
    t = cur.byte()
    if t == K_NUMUNPACK:
        for f in st.folders:
            f.num_substreams = cur.number()
            _check_count(f.num_substreams, "substream", cur)
        t = cur.byte()
    st.sub_sizes = []
    if t == K_SIZE:
        for f in st.folders:
            if f.num_substreams == 0:
                st.sub_sizes.append([])
                continue
            sizes = [cur.number() for _ in range(f.num_substreams - 1)]
            rest = f.unpack_size() - sum(sizes)
            if rest < 0:
                raise RefError("substream sizes exceed the folder's unpack size")
            sizes.append(rest)
            st.sub_sizes.append(sizes)
        t = cur.byte()
    else:
        for f in st.folders:
            if f.num_substreams == 1:
                st.sub_sizes.append([f.unpack_size()])
            elif f.num_substreams == 0:
                st.sub_sizes.append([])
            else:
                raise RefError("folder with %d substreams but no Size property" % f.num_substreams)
    ndig = sum(f.num_substreams for f in st.folders if not (f.num_substreams == 1 and f.crc is not None))
    digs = [None] * ndig
    while t != K_END:
        if t == K_CRC:
            digs = _read_digests(cur, ndig)
        else:
            raise RefError("unexpected id 0x%02x in SubStreamsInfo" % t)
        t = cur.byte()
    it = iter(digs)
    st.sub_crcs = []
    for f in st.folders:
        if f.num_substreams == 1 and f.crc is not None:
            st.sub_crcs.append([f.crc])
        else:
            st.sub_crcs.append([next(it) for _ in range(f.num_substreams)])


def _read_streamsinfo(cur, findings) -> Streams:
    st = Streams()
    t = cur.byte()
    if t == K_PACKINFO:
        _read_packinfo(cur, st, findings)
        t = cur.byte()
    if t == K_UNPACKINFO:
        _read_unpackinfo(cur, st, findings)
        t = cur.byte()
    if t == K_SUBSTREAMS:
        if not st.has_unpackinfo:
            raise RefError("SubStreamsInfo without CodersInfo")
        _read_substreams(cur, st, findings)
        t = cur.byte()
    if t != K_END:
        raise RefError("End expected after StreamsInfo, got 0x%02x" % t)
    if not st.has_substreams:
        st.sub_sizes = [[f.unpack_size()] for f in st.folders]
        st.sub_crcs = [[f.crc] for f in st.folders]
    need = sum(len(f.packed_indices) for f in st.folders)
    if need != len(st.pack_sizes):
        findings.append("numpackstreams-mismatch| NumPackStreams %d != streams the folders consume %d" % (len(st.pack_sizes), need))
    return st


def decode_folder(f: Folder, packed: list, password, findings, where="") -> bytes:
    """Decode one folder given its packed streams (list of bytes)."""
    for c in f.coders:
        if c.num_in != 1 or c.num_out != 1:
            raise RefUnsupported("coder %s with %d in / %d out streams" % (codecs.NAMES.get(c.method, c.method.hex()), c.num_in, c.num_out))
    # with simple coders stream index == coder index
    out_to_in = {o: i for (i, o) in f.bindpairs}  # coder o's output feeds coder i's input
    in_from = {i: o for (i, o) in f.bindpairs}
    start = f.packed_indices[0]
    data = packed[0]
    cur_coder = start
    seen = set()
    while True:
        if cur_coder in seen:
            raise RefError("cycle in bind pairs")
        seen.add(cur_coder)
        c = f.coders[cur_coder]
        want = f.unpack_sizes[cur_coder]
        out = codecs.decode_coder(c.method, c.props, data, want, password)
        if len(out) < want:
            raise RefDecodeError("%scoder %s produced %d bytes, declared %d" % (where, codecs.NAMES.get(c.method, "?"), len(out), want))
        if len(out) > want:
            if c.method == codecs.M_AES:
                if len(out) - want >= 16 and want:
                    findings.append("aes-padding-too-long| %s7zAES output exceeds declared size by %d (>= one block)" % (where, len(out) - want))
            elif c.method not in (codecs.M_LZMA, codecs.M_LZMA2, codecs.M_PPMD):
                findings.append("coder-output-size| %scoder %s produced %d bytes, declared %d" % (where, codecs.NAMES.get(c.method, "?"), len(out), want))
            out = out[:want]
        data = out
        if cur_coder not in out_to_in:
            break
        cur_coder = out_to_in[cur_coder]
    if len(seen) != len(f.coders):
        findings.append("coder-unreachable| %snot every coder of the folder is on the decode path" % where)
    return data


def _parse_filesinfo(cur, findings, notes):
    n = cur.number()
    _check_count(n, "file", cur)
    files = [Member(i) for i in range(n)]
    empty_stream = None
    empty_file = None
    anti = None
    seen = []
    layout = {"props": [], "dummy": []}
    while True:
        t = cur.byte()
        if t == K_END:
            break
        size = cur.number()
        start = cur.pos
        if start + size > cur.end:
            raise RefTruncated("file property 0x%02x size %d crosses the header end" % (t, size))
        sub = _Cur(cur.buf, start, start + size)
        if t in seen and t != K_DUMMY:
            findings.append("fileprop-repeated| file property 0x%02x repeated" % t)
        seen.append(t)
        layout["props"].append(t)
        if t == K_EMPTYSTREAM:
            empty_stream = sub.bits(n)
        elif t == K_EMPTYFILE:
            if empty_stream is None:
                raise RefError("EmptyFile before EmptyStream")
            empty_file = sub.bits(sum(empty_stream))
        elif t == K_ANTI:
            if empty_stream is None:
                raise RefError("Anti before EmptyStream")
            anti = sub.bits(sum(empty_stream))
        elif t == K_NAMES:
            if sub.byte() != 0:
                raise RefUnsupported("external names")
            for m in files:
                m.name, sub.pos = decode_utf16_name(sub.buf[: sub.end], sub.pos)
        elif t in (K_CTIME, K_ATIME, K_MTIME, K_STARTPOS):
            defined = sub.defined(n)
            if sub.byte() != 0:
                raise RefUnsupported("external times")
            for m, d in zip(files, defined):
                v = sub.u64() if d else None
                if t == K_CTIME:
                    m.ctime = v
                elif t == K_ATIME:
                    m.atime = v
                elif t == K_MTIME:
                    m.mtime = v
        elif t == K_ATTR:
            defined = sub.defined(n)
            if sub.byte() != 0:
                raise RefUnsupported("external attributes")
            for m, d in zip(files, defined):
                m.attributes = sub.u32() if d else None
        elif t == K_DUMMY:
            body = sub.take(size)
            layout["dummy"].append(size)
            if any(body):
                findings.append("dummy-nonzero| kDummy with non-zero bytes")
        else:
            findings.append("fileprop-unknown| unknown file property 0x%02x" % t)
            sub.pos = sub.end
        if sub.pos != sub.end:
            findings.append("fileprop-size-0x%02x| file property 0x%02x: size field %d but %d bytes consumed" % (t, t, size, sub.pos - start))
        cur.pos = start + size
    if empty_stream is not None:
        j = 0
        for m, e in zip(files, empty_stream):
            m.has_stream = not e
            if e:
                if empty_file is not None and empty_file[j]:
                    m.is_empty_file = True
                if anti is not None and anti[j]:
                    m.is_anti = True
                j += 1
    return files, layout


def _intervals_tile(intervals, lo, hi):
    """intervals: list of (start, size, label). Returns list of problems."""
    probs = []
    pos = lo
    for s, z, label in sorted(intervals):
        if s < pos:
            probs.append("%s at %d overlaps previous data ending at %d" % (label, s, pos))
        elif s > pos:
            probs.append("gap of %d bytes before %s at %d" % (s - pos, label, s))
        pos = max(pos, s + z)
    if pos < hi:
        probs.append("gap of %d bytes before the header at %d" % (hi - pos, hi))
    elif pos > hi:
        probs.append("packed data ends at %d beyond the header start %d" % (pos, hi))
    return probs


def parse(data: bytes, password: str | None = None, decode: bool = True, strict_tiling: bool = True) -> Archive:
    data = bytes(data)
    arc = Archive()
    F = arc.findings
    if len(data) < 32:
        raise RefTruncated("shorter than a signature header")
    if data[:6] != MAGIC:
        raise RefError("bad signature")
    major, minor = data[6], data[7]
    if major != 0:
        raise RefError("unsupported major version %d" % major)
    start_crc, _ = u32(data, 8)
    nh_ofs, _ = u64(data, 12)
    nh_size, _ = u64(data, 20)
    nh_crc, _ = u32(data, 28)
    if zlib.crc32(data[12:32]) & 0xFFFFFFFF != start_crc:
        raise RefError("start header CRC mismatch")
    arc.layout.update(version=(major, minor), next_header_offset=nh_ofs, next_header_size=nh_size, file_size=len(data))
    if nh_size == 0:
        if nh_ofs != 0 or nh_crc != 0:
            arc.notes.append("empty archive with non-zero offset/crc")
        arc.layout["header"] = "none"
        if len(data) > 32:
            arc.notes.append("trailing %d bytes after an empty archive" % (len(data) - 32))
        return arc
    hstart = 32 + nh_ofs
    hend = hstart + nh_size
    if hend > len(data):
        raise RefTruncated("next header [%d,%d) outside the file of %d bytes" % (hstart, hend, len(data)))
    hdr = data[hstart:hend]
    if zlib.crc32(hdr) & 0xFFFFFFFF != nh_crc:
        raise RefError("next header CRC mismatch")
    if hend < len(data):
        arc.notes.append("trailing %d bytes after the header" % (len(data) - hend))
    intervals = []
    header_kind = "raw"
    depth = 0
    hdr_pack_total = 0
    while True:
        cur = _Cur(hdr)
        t = cur.byte()
        if t == K_HEADER:
            break
        if t != K_ENCODED:
            raise RefError("header starts with 0x%02x" % t)
        depth += 1
        if depth > 4:
            raise RefError("encoded header nested too deeply")
        est = _read_streamsinfo(cur, F)
        if cur.pos != cur.end:
            F.append("encheader-trailing| encoded header: %d bytes after End" % (cur.end - cur.pos))
        if len(est.folders) != 1:
            raise RefError("encoded header with %d folders" % len(est.folders))
        f = est.folders[0]
        pos = 32 + est.pack_pos
        packed = []
        for i, z in enumerate(est.pack_sizes):
            if pos + z > hstart and depth == 1:
                raise RefError("header pack stream [%d,%d) runs into the header at %d" % (pos, pos + z, hstart))
            if pos + z > len(data):
                raise RefTruncated("header pack stream outside file")
            blob = data[pos : pos + z]
            if est.pack_crcs[i] is not None and zlib.crc32(blob) & 0xFFFFFFFF != est.pack_crcs[i]:
                F.append("header-packcrc| header pack stream CRC mismatch")
            packed.append(blob)
            intervals.append((pos, z, "header pack stream"))
            hdr_pack_total += z
            pos += z
        if len(packed) < len(f.packed_indices):
            raise RefError("encoded header: folder needs %d pack streams, %d given" % (len(f.packed_indices), len(packed)))
        header_kind = "aes" if any(c.method == codecs.M_AES for c in f.coders) else "encoded"
        arc.layout["header_coders"] = f.method_names()
        arc.layout["header_folder_crc"] = f.crc is not None
        hdr = decode_folder(f, packed, password, F, "header: ")
        if f.crc is not None and zlib.crc32(hdr) & 0xFFFFFFFF != f.crc:
            raise RefError("decoded header CRC mismatch")
    arc.layout["header"] = header_kind
    arc.layout["header_pack_total"] = hdr_pack_total
    st = None
    files = []
    flayout = {"props": [], "dummy": []}
    t = cur.byte()
    if t == K_ARCPROPS:
        while True:
            pt = cur.byte()
            if pt == K_END:
                break
            cur.take(cur.number())
        t = cur.byte()
    if t == K_ADDSTREAMS:
        raise RefUnsupported("additional streams")
    if t == K_MAINSTREAMS:
        st = _read_streamsinfo(cur, F)
        t = cur.byte()
    if t == K_FILES:
        files, flayout = _parse_filesinfo(cur, F, arc.notes)
        t = cur.byte()
    if t != K_END:
        raise RefError("End expected after header, got 0x%02x" % t)
    if cur.pos != cur.end:
        F.append("header-trailing| %d bytes after the header's End" % (cur.end - cur.pos))
    arc.streams = st
    arc.layout.update(file_props=flayout["props"], dummy=flayout["dummy"])
    # ---- wiring of files to substreams
    nstream_files = sum(1 for m in files if m.has_stream)
    nsub = sum(f.num_substreams for f in st.folders) if st else 0
    if nsub != nstream_files:
        raise RefError("%d files have streams but folders provide %d substreams" % (nstream_files, nsub))
    # ---- pack streams
    folder_bytes = []
    if st:
        pos = 32 + st.pack_pos
        blobs = []
        for i, z in enumerate(st.pack_sizes):
            if pos + z > len(data):
                raise RefTruncated("pack stream %d [%d,%d) outside the file" % (i, pos, pos + z))
            blob = data[pos : pos + z]
            if st.pack_crcs and st.pack_crcs[i] is not None and zlib.crc32(blob) & 0xFFFFFFFF != st.pack_crcs[i]:
                F.append("packcrc| pack stream %d CRC mismatch" % i)
            blobs.append(blob)
            intervals.append((pos, z, "pack stream %d" % i))
            pos += z
        arc.layout.update(
            pack_pos=st.pack_pos,
            num_pack_streams=len(st.pack_sizes),
            pack_crcs=sum(1 for c in st.pack_crcs if c is not None),
            folders=[{"coders": f.method_names(), "n": f.num_substreams, "crc": f.crc is not None, "unpack_sizes": list(f.unpack_sizes)} for f in st.folders],
            has_substreams=st.has_substreams,
        )
        k = 0
        for fi, f in enumerate(st.folders):
            npk = len(f.packed_indices)
            mine = blobs[k : k + npk]
            k += npk
            if len(mine) < npk:
                raise RefError("folder %d needs %d pack streams, %d left" % (fi, npk, len(mine)))
            if sum(st.sub_sizes[fi]) != f.unpack_size():
                F.append("substream-sum| folder %d: substream sizes sum to %d, unpack size %d" % (fi, sum(st.sub_sizes[fi]), f.unpack_size()))
            if decode:
                try:
                    out = decode_folder(f, mine, password, F, "folder %d: " % fi)
                except RefUnsupported:
                    raise
                if f.crc is not None and zlib.crc32(out) & 0xFFFFFFFF != f.crc:
                    F.append("foldercrc| folder %d: folder CRC mismatch" % fi)
                folder_bytes.append(out)
            else:
                folder_bytes.append(None)
    probs = _intervals_tile(intervals, 32, hstart)
    (F if strict_tiling else arc.notes).extend("tiling| " + p for p in probs)
    # ---- members
    it = []
    if st:
        for fi, f in enumerate(st.folders):
            off = 0
            for j in range(f.num_substreams):
                z = st.sub_sizes[fi][j]
                blob = None if folder_bytes[fi] is None else folder_bytes[fi][off : off + z]
                it.append((fi, z, st.sub_crcs[fi][j], blob))
                off += z
    it = iter(it)
    for m in files:
        if m.has_stream:
            fi, z, crc, blob = next(it)
            m.folder, m.size, m.crc, m.data = fi, z, crc, blob
            if blob is not None and crc is not None and zlib.crc32(blob) & 0xFFFFFFFF != crc:
                F.append("membercrc| member %d (%r): CRC of decoded bytes differs from the stored CRC" % (m.index, m.name))
        else:
            m.size = 0
            m.data = b"" if not m.is_dir else None
            if m.is_dir and m.attributes is not None and not (m.attributes & FILE_ATTRIBUTE_DIRECTORY):
                arc.notes.append("member %d: directory by EmptyStream rule but attribute word lacks the directory bit" % m.index)
            if (not m.is_dir) and m.attributes is not None and (m.attributes & FILE_ATTRIBUTE_DIRECTORY):
                F.append("emptyfile-vs-attr| member %d: flagged EmptyFile but attribute word says directory" % m.index)
    arc.members = files
    return arc


def parse_header_bytes(hdr: bytes):
    """Parse a raw (not encoded) Header without touching any packed data.
    Returns (Streams|None, [Member], findings)."""
    F = []
    cur = _Cur(hdr)
    if cur.byte() != K_HEADER:
        raise RefError("not a raw header")
    st = None
    files = []
    t = cur.byte()
    if t == K_MAINSTREAMS:
        st = _read_streamsinfo(cur, F)
        t = cur.byte()
    if t == K_FILES:
        files, _ = _parse_filesinfo(cur, F, [])
        t = cur.byte()
    if t != K_END:
        raise RefError("End expected after header, got 0x%02x" % t)
    if cur.pos != cur.end:
        F.append("header-trailing| %d bytes after the header's End" % (cur.end - cur.pos))
    return st, files, F
