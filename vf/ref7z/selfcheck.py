"""Self-check of the reference implementation: writer->reader round trips over one layout per
feature, and the reader against third-party fixtures whose member contents are known."""
import glob
import os
import random
import sys
import zlib

from . import reader, writer

FIXTURES = {
    # fixture: (password, number of members)
    "test_1.7z": (None, 4), "lzma_1.7z": (None, 1), "bzip2_2.7z": (None, 1), "deflate.7z": (None, 3),
    "ppmd.7z": (None, 3), "zstd.7z": (None, 4), "encrypted_1.7z": ("secret", 3), "copy.7z": (None, 3),
    "lzma2_bcj_arm.7z": (None, 3), "lzma_bcj_x86.7z": (None, 1), "solid.7z": (None, 3), "symlink.7z": (None, 6),
}


def main(verbose=False):
    rng = random.Random(7)
    mem = [
        {"name": "d", "kind": "dir", "attributes": 0x10, "mtime": 132000000000000000},
        {"name": "d/a.txt", "kind": "file", "data": b"hello world" * 10, "mtime": 132000000000000001, "attributes": 0x20},
        {"name": "e", "kind": "emptyfile"},
        {"name": "d/b.bin", "kind": "file", "data": bytes(range(256)) * 5, "mtime": None, "attributes": 0x20 | 0x8000 | (0o100644 << 16)},
        {"name": "c", "kind": "file", "data": b"x", "mtime": 5, "attributes": None},
    ]
    chains = [[{"m": "LZMA2"}], [{"m": "LZMA"}], [{"m": "BCJ"}, {"m": "LZMA2"}], [{"m": "DELTA", "dist": 3}, {"m": "LZMA2"}], [{"m": "BZip2"}],
              [{"m": "DEFLATE"}], [{"m": "DEFLATE64"}], [{"m": "COPY"}], [{"m": "ZStandard"}], [{"m": "Brotli"}], [{"m": "PPMd"}],
              [{"m": "LZMA2"}, {"m": "7zAES"}], [{"m": "7zAES"}], [{"m": "ARM"}, {"m": "ZStandard"}], [{"m": "IA64"}, {"m": "LZMA2"}]]
    n = 0
    for i, ch in enumerate(chains):
        for hdr in ("raw", "lzma", "lzma+crc", "aes", "copy"):
            lay = {"folders": [{"n": 2, "chain": ch, "crc": ["sub", "partial", "both"][i % 3]}, {"n": 1, "chain": [{"m": "COPY"}], "crc": ["folder", "none", "sub"][i % 3]}],
                   "header": hdr, "pack_crc": bool(i & 1), "dummy": (i % 4) or None, "packpos": (i % 3) * 7, "nonminimal": i % 3, "explicit_defvec": bool(i & 2)}
            b = writer.build(mem, lay, password="pw", rng=rng)
            a = reader.parse(b, password="pw", strict_tiling=False)
            assert a.names() == [m["name"] for m in mem], (ch, hdr, a.names())
            assert [m.data for m in a.members if m.has_stream] == [m["data"] for m in mem if m["kind"] == "file"], (ch, hdr)
            assert [m.is_dir for m in a.members] == [m["kind"] == "dir" for m in mem]
            assert [m.mtime for m in a.members] == [m.get("mtime") for m in mem]
            assert [m.attributes for m in a.members] == [m.get("attributes") for m in mem]
            assert not a.findings, (ch, hdr, a.findings)
            n += 1
    root = os.environ.get("VERIF_REPO", "/repo")
    src = os.path.join(root, "tests", "data")
    k = 0
    for fn, (pw, cnt) in FIXTURES.items():
        p = os.path.join(src, fn)
        if not os.path.exists(p):
            continue
        a = reader.parse(open(p, "rb").read(), password=pw)
        assert len(a.members) == cnt, (fn, len(a.members))
        assert not a.findings, (fn, a.findings)
        for m in a.members:
            if m.has_stream and m.crc is not None:
                assert zlib.crc32(m.data) & 0xFFFFFFFF == m.crc, fn
        # contents known from tests/data/src for test_1.7z
        if fn == "test_1.7z":
            for m in a.members:
                q = os.path.join(src, "src", m.name) if not m.name.startswith("src") else os.path.join(src, m.name)
                if m.has_stream and os.path.isfile(q):
                    assert open(q, "rb").read() == m.data, (fn, m.name)
        k += 1
    if verbose:
        print("ref7z selfcheck: %d writer->reader round trips, %d fixtures" % (n, k))
    return 0


if __name__ == "__main__":
    sys.exit(main(True))
