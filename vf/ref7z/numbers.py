"""Primitive encodings of the 7z container, written from the format text
(docs/archive_format.rst / 7zFormat.txt), independent of py7zr.

NUMBER:  first byte gives, by its count of leading one bits n (0..8), the number
of extra bytes; the remaining low bits of the first byte are the HIGH part of the
value; the extra bytes are the low part, little endian.
"""
import struct


class RefError(Exception):
    """The bytes are not a well-formed 7z archive (reference reader's verdict)."""


class RefTruncated(RefError):
    pass


def encode_number(value: int, length: int | None = None) -> bytes:
    """Encode value (0..2^64-1). length = total bytes wanted (1..9) for a
    deliberately non-minimal (but conforming) encoding; None = minimal."""
    if not 0 <= value < 1 << 64:
        raise ValueError(value)
    if length is None:
        for n in range(0, 9):  # n extra bytes
            if n == 8 or value < 1 << (7 - n + 8 * n):
                length = n + 1
                break
    n = length - 1
    if n == 8:
        return b"\xff" + struct.pack("<Q", value)
    if value >= 1 << (7 - n + 8 * n):
        raise ValueError("value does not fit in %d bytes" % length)
    low = value & ((1 << (8 * n)) - 1)
    high = value >> (8 * n)
    first = ((0xFF << (8 - n)) & 0xFF) | high
    return bytes([first]) + low.to_bytes(n, "little")


def decode_number(buf, pos: int) -> tuple[int, int]:
    if pos >= len(buf):
        raise RefTruncated("NUMBER at end of data")
    first = buf[pos]
    pos += 1
    n = 0
    mask = 0x80
    while n < 8 and first & mask:
        n += 1
        mask >>= 1
    if pos + n > len(buf):
        raise RefTruncated("NUMBER tail truncated")
    low = int.from_bytes(buf[pos : pos + n], "little")
    if n == 8:
        return low, pos + n
    high = first & (mask - 1)
    return low + (high << (8 * n)), pos + n


def encode_bits(bits) -> bytes:
    out = bytearray((len(bits) + 7) // 8)
    for i, b in enumerate(bits):
        if b:
            out[i >> 3] |= 0x80 >> (i & 7)
    return bytes(out)


def decode_bits(buf, pos: int, count: int) -> tuple[list[bool], int]:
    nbytes = (count + 7) // 8
    if pos + nbytes > len(buf):
        raise RefTruncated("bit vector truncated")
    bits = [bool(buf[pos + (i >> 3)] & (0x80 >> (i & 7))) for i in range(count)]
    return bits, pos + nbytes


def encode_defined_vector(defined, force_vector: bool = False) -> bytes:
    """AllDefined byte, followed by the bit vector when not all defined
    (or when force_vector asks for the explicit form even if all are defined)."""
    if all(defined) and not force_vector:
        return b"\x01"
    return b"\x00" + encode_bits(defined)


def decode_defined_vector(buf, pos: int, count: int) -> tuple[list[bool], int]:
    if pos >= len(buf):
        raise RefTruncated("AllDefined byte missing")
    alldef = buf[pos]
    pos += 1
    if alldef != 0:
        return [True] * count, pos
    return decode_bits(buf, pos, count)


def encode_utf16_name(name: str) -> bytes:
    return name.encode("utf-16-le", "surrogatepass") + b"\x00\x00"


def decode_utf16_name(buf, pos: int) -> tuple[str, int]:
    end = pos
    n = len(buf)
    while True:
        if end + 2 > n:
            raise RefTruncated("name not terminated")
        if buf[end] == 0 and buf[end + 1] == 0:
            break
        end += 2
    return bytes(buf[pos:end]).decode("utf-16-le", "surrogatepass"), end + 2


def u32(buf, pos):
    if pos + 4 > len(buf):
        raise RefTruncated("u32 truncated")
    return struct.unpack_from("<L", buf, pos)[0], pos + 4


def u64(buf, pos):
    if pos + 8 > len(buf):
        raise RefTruncated("u64 truncated")
    return struct.unpack_from("<Q", buf, pos)[0], pos + 8
