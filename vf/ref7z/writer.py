"""Reference writer: logical archive + physical layout -> bytes.  Does not import py7zr.

members: list of dicts
    {"name": str, "kind": "file"|"emptyfile"|"dir"|"symlink", "data": bytes (file/symlink),
     "mtime"/"ctime"/"atime": int|None (FILETIME), "attributes": int|None}
layout: dict (all keys optional)
    folders        list of {"n": int, "chain": [coder spec, ... in ENCODE order], "crc": "sub"|"folder"|"none"|"partial"}
                   the n's must sum to the number of members with a stream, in member order
    omit_numunpack bool  omit NumUnpackStream when every folder has exactly one substream (default True)
    pack_crc       bool  packed-stream CRCs
    packpos        int   filler bytes between the signature header and the first packed stream
    dummy          int|None  kDummy record length placed before the names
    emptyfile_vec  "auto"|"always"   (auto: only when some empty-stream entry is an empty file)
    explicit_defvec bool  write explicit defined-vectors even when everything is defined
    header         "raw"|"lzma"|"lzma+crc"|"copy"|"aes"
    nonminimal     int   (0 = minimal NUMBERs; k>0 = pad NUMBERs to k extra bytes where possible)
    names          bool  (default True)
    trailing       int   garbage bytes after the header
    version        (major, minor)
"""
import struct
import zlib

from . import codecs
from .numbers import encode_bits, encode_defined_vector, encode_number, encode_utf16_name

MAGIC = b"7z\xbc\xaf\x27\x1c"


def crc32(b):
    return zlib.crc32(b) & 0xFFFFFFFF


class _W:
    """Byte sink that also records the token stream (so that structure-aware mutation can replace
    one NUMBER / id byte and re-emit everything else unchanged)."""

    def __init__(self, nonminimal=0):
        self.b = bytearray()
        self.nm = nonminimal
        self.tokens = []

    def byte(self, v):
        self.b.append(v)
        self.tokens.append(("b", v))

    def raw(self, data):
        self.b += data
        self.tokens.append(("r", bytes(data)))

    def num(self, v):
        self.tokens.append(("n", v))
        self.b += _enc_num(v, self.nm)

    def u32(self, v):
        self.b += struct.pack("<L", v)
        self.tokens.append(("u32", v))

    def u64(self, v):
        self.b += struct.pack("<Q", v)
        self.tokens.append(("u64", v))


def _enc_num(v, nm=0):
    if nm:
        minimal = len(encode_number(v))
        return encode_number(v, min(9, minimal + nm))
    return encode_number(v)


def emit_tokens(tokens, nonminimal=0) -> bytes:
    out = bytearray()
    for kind, v in tokens:
        if kind == "b":
            out.append(v & 0xFF)
        elif kind == "r":
            out += v
        elif kind == "n":
            out += _enc_num(v & ((1 << 64) - 1), nonminimal)
        elif kind == "u32":
            out += struct.pack("<L", v & 0xFFFFFFFF)
        elif kind == "u64":
            out += struct.pack("<Q", v & ((1 << 64) - 1))
    return bytes(out)


def encode_chain(chain, data: bytes, password=None, rng=None):
    """Apply coders in encode order. Returns (coders in DECODE order as (method, props),
    unpack sizes per coder in decode order, packed bytes)."""
    coders = []
    sizes = []
    cur = data
    for spec in chain:
        sizes.append(len(cur))
        method, props, cur = codecs.encode_coder(spec, cur, password, rng)
        coders.append((method, props))
    coders.reverse()
    sizes.reverse()
    return coders, sizes, cur


def _write_digests(w: _W, crcs, explicit=False):
    w.byte(0x0A)
    defined = [c is not None for c in crcs]
    w.raw(encode_defined_vector(defined, explicit))
    for c in crcs:
        if c is not None:
            w.u32(c)


def _write_folder(w: _W, coders):
    w.num(len(coders))
    for method, props in coders:
        flag = len(method) | (0x20 if props is not None else 0)
        w.byte(flag)
        w.raw(method)
        if props is not None:
            w.num(len(props))
            w.raw(props)
    for i in range(len(coders) - 1):
        w.num(i + 1)
        w.num(i)


def _streams_info(w: _W, pack_pos, pack_sizes, pack_crcs, folders, substreams=True, omit_numunpack=True, explicit=False):
    """folders: list of dict(coders, sizes, folder_crc, sub_sizes, sub_crcs)"""
    w.byte(0x06)
    w.num(pack_pos)
    w.num(len(pack_sizes))
    w.byte(0x09)
    for z in pack_sizes:
        w.num(z)
    if pack_crcs is not None and any(c is not None for c in pack_crcs):
        _write_digests(w, pack_crcs, explicit)
    w.byte(0x00)
    w.byte(0x07)
    w.byte(0x0B)
    w.num(len(folders))
    w.byte(0x00)
    for f in folders:
        _write_folder(w, f["coders"])
    w.byte(0x0C)
    for f in folders:
        for z in f["sizes"]:
            w.num(z)
    if any(f["folder_crc"] is not None for f in folders):
        _write_digests(w, [f["folder_crc"] for f in folders], explicit)
    w.byte(0x00)
    if substreams:
        w.byte(0x08)
        ns = [len(f["sub_sizes"]) for f in folders]
        if not (omit_numunpack and all(n == 1 for n in ns)):
            w.byte(0x0D)
            for n in ns:
                w.num(n)
        if any(n > 1 for n in ns):
            w.byte(0x09)
            for f in folders:
                for z in f["sub_sizes"][:-1]:
                    w.num(z)
        digs = []
        for f in folders:
            if len(f["sub_sizes"]) == 1 and f["folder_crc"] is not None:
                continue
            digs.extend(f["sub_crcs"])
        if any(c is not None for c in digs):
            _write_digests(w, digs, explicit)
        w.byte(0x00)
    w.byte(0x00)


def _prop(w: _W, pid, body: bytes):
    w.byte(pid)
    w.num(len(body))
    w.raw(body)


def _files_info(w: _W, members, layout):
    n = len(members)
    w.byte(0x05)
    w.num(n)
    explicit = layout.get("explicit_defvec", False)
    empty_stream = [m["kind"] in ("dir", "emptyfile") for m in members]
    if any(empty_stream) or layout.get("emptystream_always"):
        _prop(w, 0x0E, encode_bits(empty_stream))
        ef = [m["kind"] == "emptyfile" for m in members if m["kind"] in ("dir", "emptyfile")]
        if any(ef) or (layout.get("emptyfile_vec") == "always" and ef):
            _prop(w, 0x0F, encode_bits(ef))
        if layout.get("anti_zero") and any(empty_stream):
            # the writer says in so many words that none of its empty entries is an anti-item
            _prop(w, 0x10, encode_bits([False] * sum(empty_stream)))
    if layout.get("dummy") is not None:
        _prop(w, 0x19, bytes(layout["dummy"]))
    if layout.get("names", True):
        body = b"\x00" + b"".join(encode_utf16_name(m["name"]) for m in members)
        _prop(w, 0x11, body)
    for key, pid in (("ctime", 0x12), ("atime", 0x13), ("mtime", 0x14)):
        vals = [m.get(key) for m in members]
        if any(v is not None for v in vals):
            body = encode_defined_vector([v is not None for v in vals], explicit) + b"\x00"
            body += b"".join(struct.pack("<Q", v) for v in vals if v is not None)
            _prop(w, pid, body)
    if layout.get("startpos"):
        dv = [i % 3 != 1 for i in range(n)]
        body = encode_defined_vector(dv, explicit) + b"\x00" + b"".join(struct.pack("<Q", (i * 0x0101010101) & ((1 << 64) - 1)) for i, d_ in enumerate(dv) if d_)
        _prop(w, 0x18, body)
    if layout.get("dummy2") is not None:
        _prop(w, 0x19, bytes(layout["dummy2"]))
    vals = [m.get("attributes") for m in members]
    if any(v is not None for v in vals):
        body = encode_defined_vector([v is not None for v in vals], explicit) + b"\x00"
        body += b"".join(struct.pack("<L", v) for v in vals if v is not None)
        _prop(w, 0x15, body)
    w.byte(0x00)


def build(members, layout=None, password=None, rng=None, token_hook=None, header_bytes_hook=None) -> bytes:
    """token_hook(tokens) -> tokens: structure-aware mutation of the raw header before sealing;
    header_bytes_hook(bytes) -> bytes: byte-level mutation of the raw header before sealing/encoding."""
    layout = dict(layout or {})
    nm = layout.get("nonminimal", 0)
    stream_members = [m for m in members if m["kind"] in ("file", "symlink")]
    fspecs = layout.get("folders")
    if fspecs is None:
        fspecs = [{"n": len(stream_members), "chain": [{"m": "LZMA2"}], "crc": "sub"}] if stream_members else []
    if sum(f["n"] for f in fspecs) != len(stream_members):
        raise ValueError("folder partition does not match the members with streams")
    packpos = layout.get("packpos", 0)
    body = bytearray(rng.getrandbits(8) for _ in range(packpos)) if (rng and packpos) else bytearray(b"\xa5" * packpos)
    folders = []
    pack_sizes = []
    pack_crcs = []
    k = 0
    for fs in fspecs:
        mine = stream_members[k : k + fs["n"]]
        k += fs["n"]
        blob = b"".join(m["data"] for m in mine)
        coders, sizes, packed = encode_chain(fs["chain"], blob, password, rng)
        mode = fs.get("crc", "sub")
        sub_crcs = [crc32(m["data"]) for m in mine]
        folder_crc = None
        if mode == "folder":
            folder_crc = crc32(blob)
            if len(mine) != 1:
                sub_crcs = [None] * len(mine)
        elif mode == "both":
            folder_crc = crc32(blob)
        elif mode == "none":
            sub_crcs = [None] * len(mine)
        elif mode == "partial":
            sub_crcs = [c if i % 2 == 0 else None for i, c in enumerate(sub_crcs)]
        folders.append(dict(coders=coders, sizes=sizes, folder_crc=folder_crc, sub_sizes=[len(m["data"]) for m in mine], sub_crcs=sub_crcs))
        pack_sizes.append(len(packed))
        pc = layout.get("pack_crc")
        pack_crcs.append(crc32(packed) if (pc is True or (pc == "partial" and len(pack_crcs) % 2 == 1) or (pc and pc != "partial")) else None)
        body += packed
        gap = fs.get("gap_after", 0)
        if gap:
            raise ValueError("gaps between pack streams are not expressible in 7z")
    # ---- header
    w = _W(nm)
    w.byte(0x01)
    if layout.get("archive_props"):
        # ArchiveProperties: records of (type, size, data), closed by End
        w.byte(0x02)
        _prop(w, 0x7E, b"made by the reference writer")
        _prop(w, 0x19, bytes(3))
        w.byte(0x00)
    if not folders and layout.get("empty_streams_info"):
        w.byte(0x04)
        w.byte(0x00)
    if folders:
        w.byte(0x04)
        _streams_info(w, packpos, pack_sizes, pack_crcs, folders, substreams=layout.get("substreams", True),
                      omit_numunpack=layout.get("omit_numunpack", True), explicit=layout.get("explicit_defvec", False))
    if members or layout.get("files_always"):
        _files_info(w, members, layout)
    w.byte(0x00)
    raw_header = bytes(w.b)
    if token_hook is not None:
        raw_header = emit_tokens(token_hook(list(w.tokens)), nm)
    if header_bytes_hook is not None:
        raw_header = header_bytes_hook(raw_header)
    hmode = layout.get("header", "raw")
    if not members and not folders and layout.get("empty_as_zero", True) and hmode == "raw":
        header = b""
    elif hmode == "raw":
        header = raw_header
    else:
        chain = {
            "lzma": [{"m": "LZMA", "preset": 1}],
            "lzma+crc": [{"m": "LZMA", "preset": 1}],
            "lzma2": [{"m": "LZMA2", "preset": 1}],
            "copy": [{"m": "COPY"}],
            "aes": [{"m": "7zAES", "cycles": layout.get("header_cycles", 8)}],
            "lzma+aes": [{"m": "LZMA", "preset": 1}, {"m": "7zAES", "cycles": layout.get("header_cycles", 8)}],
        }[hmode]
        coders, sizes, packed = encode_chain(chain, raw_header, password, rng)
        hpos = len(body)
        body += packed
        hw = _W(nm)
        hw.byte(0x17)
        hf = dict(coders=coders, sizes=sizes, folder_crc=(crc32(raw_header) if hmode != "lzma" else None), sub_sizes=[len(raw_header)], sub_crcs=[None])
        _streams_info(hw, hpos, [len(packed)], [crc32(packed)] if layout.get("pack_crc") else None, [hf], substreams=False)
        # _streams_info writes the trailing End of StreamsInfo; an EncodedHeader is exactly that
        header = bytes(hw.b)
    nh_ofs = len(body)
    out = bytearray()
    start = struct.pack("<QQL", nh_ofs if header else 0, len(header), crc32(header) if header else 0)
    major, minor = layout.get("version", (0, 4))
    out += MAGIC + bytes([major, minor]) + struct.pack("<L", crc32(start)) + start
    out += body
    out += header
    out += bytes(layout.get("trailing", 0))
    return bytes(out)


def build_raw_header(desc, layout=None) -> bytes:
    """Raw Header from an abstract description (sizes/CRCs given, not derived from data):
    desc = {"pack_pos", "pack_sizes", "pack_crcs", "folders": [{"coders": [(method, props)], "sizes": [...],
            "folder_crc", "sub_sizes": [...], "sub_crcs": [...]}], "files": [member dicts]}"""
    layout = dict(layout or {})
    w = _W(layout.get("nonminimal", 0))
    w.byte(0x01)
    if desc.get("folders"):
        w.byte(0x04)
        _streams_info(w, desc.get("pack_pos", 0), desc["pack_sizes"], desc.get("pack_crcs"), desc["folders"],
                      substreams=True, omit_numunpack=layout.get("omit_numunpack", True), explicit=layout.get("explicit_defvec", False))
    if desc.get("files"):
        _files_info(w, desc["files"], layout)
    w.byte(0x00)
    return bytes(w.b)
