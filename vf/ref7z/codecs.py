"""Coder table of the reference implementation.

Only the *codec libraries* are shared with py7zr (the same delegation boundary the
repository draws); method ids, property formats, chain wiring, key derivation and
padding rules are implemented here from the format description.
"""
import bz2
import hashlib
import lzma
import struct
import zlib

from .numbers import RefError


class RefUnsupported(RefError):
    """Coder the reference implementation (and py7zr) does not implement."""


class RefPasswordRequired(RefError):
    pass


class RefDecodeError(RefError):
    pass


M_COPY = b"\x00"
M_DELTA = b"\x03"
M_X86 = b"\x04"
M_PPC = b"\x05"
M_IA64 = b"\x06"
M_ARM = b"\x07"
M_ARMT = b"\x08"
M_SPARC = b"\x09"
M_LZMA = b"\x03\x01\x01"
M_LZMA2 = b"\x21"
M_PPMD = b"\x03\x04\x01"
M_X86_OLD = b"\x03\x03\x01\x03"
M_BCJ2 = b"\x03\x03\x01\x1b"
M_PPC_OLD = b"\x03\x03\x02\x05"
M_IA64_OLD = b"\x03\x03\x04\x01"
M_ARM_OLD = b"\x03\x03\x05\x01"
M_ARMT_OLD = b"\x03\x03\x07\x01"
M_SPARC_OLD = b"\x03\x03\x08\x05"
M_BZIP2 = b"\x04\x02\x02"
M_DEFLATE = b"\x04\x01\x08"
M_DEFLATE64 = b"\x04\x01\x09"
M_ZSTD = b"\x04\xf7\x11\x01"
M_BROTLI = b"\x04\xf7\x11\x02"
M_LZ4 = b"\x04\xf7\x11\x04"
M_AES = b"\x06\xf1\x07\x01"

NAMES = {
    M_COPY: "COPY", M_DELTA: "DELTA", M_X86: "BCJ", M_PPC: "PPC", M_IA64: "IA64", M_ARM: "ARM",
    M_ARMT: "ARMT", M_SPARC: "SPARC", M_LZMA: "LZMA", M_LZMA2: "LZMA2", M_PPMD: "PPMd",
    M_X86_OLD: "BCJ", M_BCJ2: "BCJ2", M_PPC_OLD: "PPC", M_IA64_OLD: "IA64", M_ARM_OLD: "ARM",
    M_ARMT_OLD: "ARMT", M_SPARC_OLD: "SPARC", M_BZIP2: "BZip2", M_DEFLATE: "DEFLATE",
    M_DEFLATE64: "DEFLATE64", M_ZSTD: "ZStandard", M_BROTLI: "Brotli", M_LZ4: "LZ4", M_AES: "7zAES",
}

_BCJ_KIND = {
    M_X86: "x86", M_X86_OLD: "x86", M_PPC: "ppc", M_PPC_OLD: "ppc", M_ARM: "arm", M_ARM_OLD: "arm",
    M_ARMT: "armt", M_ARMT_OLD: "armt", M_SPARC: "sparc", M_SPARC_OLD: "sparc",
    M_IA64: "ia64", M_IA64_OLD: "ia64",
}
_LZMA_BCJ = {
    "x86": lzma.FILTER_X86, "ppc": lzma.FILTER_POWERPC, "arm": lzma.FILTER_ARM,
    "armt": lzma.FILTER_ARMTHUMB, "sparc": lzma.FILTER_SPARC, "ia64": lzma.FILTER_IA64,
}

_kdf_cache: dict = {}


def derive_key(password: str, cycles: int, salt: bytes) -> bytes:
    """7zAES key: SHA-256 over (salt | password_utf16le | counter_le64) for 2^cycles rounds;
    cycles == 0x3f means 'no hashing': key = (salt | password) zero-padded to 32 bytes."""
    pw = password.encode("utf-16-le", "surrogatepass")
    k = (pw, cycles, salt)
    if k in _kdf_cache:
        return _kdf_cache[k]
    if cycles == 0x3F:
        key = (salt + pw + bytes(32))[:32]
    else:
        if cycles > 24:
            raise RefUnsupported("7zAES cycles %d too expensive" % cycles)
        h = hashlib.sha256()
        sp = salt + pw
        rounds = 1 << cycles
        # feed in blocks of 4096 rounds to keep the Python loop short
        step = 4096
        for base in range(0, rounds, step):
            h.update(b"".join(sp + struct.pack("<Q", r) for r in range(base, min(base + step, rounds))))
        key = h.digest()
    _kdf_cache[k] = key
    return key


def parse_aes_props(props: bytes):
    if props is None or len(props) < 1:
        raise RefError("7zAES without properties")
    b0 = props[0]
    cycles = b0 & 0x3F
    if b0 & 0xC0 == 0:
        salt = b""
        iv = b""
        if len(props) != 1:
            raise RefError("7zAES properties length %d for flags 0" % len(props))
    else:
        if len(props) < 2:
            raise RefError("7zAES properties too short")
        b1 = props[1]
        saltsize = ((b0 >> 7) & 1) + (b1 >> 4)
        ivsize = ((b0 >> 6) & 1) + (b1 & 0x0F)
        if len(props) != 2 + saltsize + ivsize:
            raise RefError("7zAES properties length %d != 2+%d+%d" % (len(props), saltsize, ivsize))
        salt = props[2 : 2 + saltsize]
        iv = props[2 + saltsize :]
    return cycles, salt, iv


def make_aes_props(cycles: int, salt: bytes, iv: bytes) -> bytes:
    saltflag = 1 if salt else 0
    ivflag = 1 if iv else 0
    b0 = cycles | (ivflag << 6) | (saltflag << 7)
    if not saltflag and not ivflag:
        return bytes([b0])
    b1 = ((len(salt) - saltflag) << 4) | (len(iv) - ivflag)
    return bytes([b0, b1]) + salt + iv


def _aes(password, props):
    from Cryptodome.Cipher import AES

    cycles, salt, iv = parse_aes_props(props)
    if password is None:
        raise RefPasswordRequired("7zAES coder present and no password")
    key = derive_key(password, cycles, salt)
    return AES.new(key, AES.MODE_CBC, iv + bytes(16 - len(iv)))


def lzma1_filter(props: bytes):
    if props is None or len(props) != 5:
        raise RefError("LZMA properties must be 5 bytes")
    d = props[0]
    if d >= 9 * 5 * 5:
        raise RefError("LZMA lc/lp/pb byte out of range")
    lc = d % 9
    d //= 9
    lp = d % 5
    pb = d // 5
    dict_size = struct.unpack("<L", props[1:])[0]
    return {"id": lzma.FILTER_LZMA1, "lc": lc, "lp": lp, "pb": pb, "dict_size": max(dict_size, 4096)}


def lzma2_filter(props: bytes):
    if props is None or len(props) != 1:
        raise RefError("LZMA2 properties must be 1 byte")
    bits = props[0]
    if bits > 40:
        raise RefError("LZMA2 dictionary code > 40")
    if bits == 40:
        dict_size = 0xFFFFFFFF
    else:
        dict_size = (2 | (bits & 1)) << (bits // 2 + 11)
    return {"id": lzma.FILTER_LZMA2, "dict_size": dict_size}


def delta_decode(data: bytes, dist: int) -> bytes:
    out = bytearray(data)
    for lane in range(min(dist, len(out))):
        acc = 0
        for i in range(lane, len(out), dist):
            acc = (acc + out[i]) & 0xFF
            out[i] = acc
    return bytes(out)


def delta_encode(data: bytes, dist: int) -> bytes:
    out = bytearray(len(data))
    for i in range(len(data)):
        prev = data[i - dist] if i >= dist else 0
        out[i] = (data[i] - prev) & 0xFF
    return bytes(out)


def _bcj(kind: str, data: bytes, encode: bool) -> bytes:
    import bcj

    if kind == "ia64":
        # pybcj has no IA64 coder; liblzma has one, but only inside an LZMA chain.
        # Wrap: decode(x) == lzma-raw-decode([IA64, LZMA2]) of lzma-raw-encode([LZMA2]) of x.
        if encode:
            packed = lzma.compress(data, format=lzma.FORMAT_RAW, filters=[{"id": lzma.FILTER_IA64}, {"id": lzma.FILTER_LZMA2, "preset": 0}])
            return lzma.decompress(packed, format=lzma.FORMAT_RAW, filters=[{"id": lzma.FILTER_LZMA2, "preset": 0}])
        packed = lzma.compress(data, format=lzma.FORMAT_RAW, filters=[{"id": lzma.FILTER_LZMA2, "preset": 0}])
        return lzma.decompress(packed, format=lzma.FORMAT_RAW, filters=[{"id": lzma.FILTER_IA64}, {"id": lzma.FILTER_LZMA2, "preset": 0}])
    cls = {
        ("x86", False): bcj.BCJDecoder, ("x86", True): bcj.BCJEncoder,
        ("arm", False): bcj.ARMDecoder, ("arm", True): bcj.ARMEncoder,
        ("armt", False): bcj.ARMTDecoder, ("armt", True): bcj.ARMTEncoder,
        ("ppc", False): bcj.PPCDecoder, ("ppc", True): bcj.PPCEncoder,
        ("sparc", False): bcj.SparcDecoder, ("sparc", True): bcj.SparcEncoder,
    }[(kind, encode)]
    if encode:
        e = cls()
        return e.encode(data) + e.flush()
    d = cls(len(data))
    out = d.decode(data)
    # the decoder may hold back a tail until it has seen `size` bytes
    guard = 0
    while len(out) < len(data) and guard < 8:
        out += d.decode(b"")
        guard += 1
    return out


def decode_coder(method: bytes, props, data: bytes, out_size: int, password=None) -> bytes:
    """Decode one simple coder (1 in / 1 out). Returns exactly the decoder's output
    (may be longer than out_size for block ciphers; the caller truncates where the
    format says so)."""
    try:
        if method == M_COPY:
            return data
        if method == M_LZMA:
            d = lzma.LZMADecompressor(format=lzma.FORMAT_RAW, filters=[lzma1_filter(props)])
            return d.decompress(data, max_length=out_size)
        if method == M_LZMA2:
            d = lzma.LZMADecompressor(format=lzma.FORMAT_RAW, filters=[lzma2_filter(props)])
            return d.decompress(data, max_length=out_size)
        if method == M_DELTA:
            if props is None or len(props) != 1:
                raise RefError("Delta properties must be 1 byte")
            return delta_decode(data, props[0] + 1)
        if method in _BCJ_KIND:
            return _bcj(_BCJ_KIND[method], data, False)
        if method == M_BZIP2:
            return bz2.decompress(data)
        if method == M_DEFLATE:
            d = zlib.decompressobj(-15)
            return d.decompress(data) + d.flush()
        if method == M_DEFLATE64:
            import inflate64

            d = inflate64.Inflater()
            out = d.inflate(data)
            out += d.inflate(b"")
            return out
        if method == M_ZSTD:
            import pyzstd

            if props is None or len(props) not in (3, 5):
                raise RefError("ZStandard properties must be 3 or 5 bytes")
            # every frame of the stream (a writer may cut it into several, skippable ones included)
            return pyzstd.decompress(data)
        if method == M_BROTLI:
            import brotli

            if props is None or len(props) != 3:
                raise RefError("Brotli properties must be 3 bytes")
            return brotli.decompress(data)
        if method == M_PPMD:
            import pyppmd

            if props is None or len(props) not in (5, 7):
                raise RefError("PPMd properties must be 5 bytes")
            order, mem = struct.unpack("<BL", props[:5])
            d = pyppmd.Ppmd7Decoder(order, mem)
            out = d.decode(data, out_size)
            guard = 0
            while len(out) < out_size and guard < 4:
                more = d.decode(b"\0", out_size - len(out)) if d.needs_input else d.decode(b"", out_size - len(out))
                out += more
                guard += 1
            return out
        if method == M_AES:
            c = _aes(password, props)
            if len(data) % 16:
                raise RefDecodeError("7zAES input not a multiple of 16 bytes (%d)" % len(data))
            return c.decrypt(data)
    except RefError:
        raise
    except Exception as e:  # codec library errors
        raise RefDecodeError("%s decoder: %s: %s" % (NAMES.get(method, method.hex()), type(e).__name__, e))
    if method in (M_BCJ2, M_LZ4) or method not in NAMES:
        raise RefUnsupported("coder %s" % NAMES.get(method, method.hex()))
    raise RefUnsupported("coder %s" % NAMES[method])


def encode_coder(spec: dict, data: bytes, password=None, rng=None):
    """Encode with one coder. spec: {"m": name, ...params}. Returns (method id, props, bytes)."""
    m = spec["m"]
    if m == "COPY":
        return M_COPY, None, data
    if m == "RAWID":
        # a coder known by its id only (ARM64 0a, RISC-V 0b, ...): for statements about structure; nobody here can decode it
        return bytes.fromhex(spec["id"]), spec.get("props"), data
    if m == "LZMA":
        f = {"id": lzma.FILTER_LZMA1, "preset": spec.get("preset", 1)}
        for k in ("lc", "lp", "pb", "dict_size"):
            if k in spec:
                f[k] = spec[k]
        props = lzma._encode_filter_properties(f)
        return M_LZMA, props, lzma.compress(data, format=lzma.FORMAT_RAW, filters=[lzma._decode_filter_properties(lzma.FILTER_LZMA1, props)])
    if m == "LZMA2":
        f = {"id": lzma.FILTER_LZMA2, "preset": spec.get("preset", 1)}
        if "dict_size" in spec:
            f["dict_size"] = spec["dict_size"]
        props = lzma._encode_filter_properties(f)
        return M_LZMA2, props, lzma.compress(data, format=lzma.FORMAT_RAW, filters=[f])
    if m == "DELTA":
        dist = spec.get("dist", 1)
        return M_DELTA, bytes([dist - 1]), delta_encode(data, dist)
    if m in ("BCJ", "ARM", "ARMT", "PPC", "SPARC", "IA64"):
        kind = {"BCJ": "x86", "ARM": "arm", "ARMT": "armt", "PPC": "ppc", "SPARC": "sparc", "IA64": "ia64"}[m]
        new = {"x86": M_X86, "arm": M_ARM, "armt": M_ARMT, "ppc": M_PPC, "sparc": M_SPARC, "ia64": M_IA64}
        old = {"x86": M_X86_OLD, "arm": M_ARM_OLD, "armt": M_ARMT_OLD, "ppc": M_PPC_OLD, "sparc": M_SPARC_OLD, "ia64": M_IA64_OLD}
        mid = new[kind] if spec.get("newid") else old[kind]
        return mid, None, _bcj(kind, data, True)
    if m == "BZip2":
        return M_BZIP2, None, bz2.compress(data, spec.get("level", 9))
    if m == "DEFLATE":
        c = zlib.compressobj(spec.get("level", 6), zlib.DEFLATED, -15)
        return M_DEFLATE, None, c.compress(data) + c.flush()
    if m == "DEFLATE64":
        import inflate64

        c = inflate64.Deflater()
        return M_DEFLATE64, None, c.deflate(data) + c.flush()
    if m == "ZStandard":
        import pyzstd

        level = spec.get("level", 3)
        props = bytes([1, 5, level]) + (b"\x00\x00" if spec.get("props5", True) else b"")
        nfr = spec.get("frames", 1)
        if nfr > 1:
            # the stream cut into several frames, a skippable frame in front (what multithreaded writers make)
            step = max(1, -(-len(data) // nfr))
            out = b"\x50\x2a\x4d\x18" + struct.pack("<L", 4) + b"skip"
            for i in range(0, max(len(data), 1), step):
                out += pyzstd.compress(data[i : i + step], level)
            return M_ZSTD, props, out
        return M_ZSTD, props, pyzstd.compress(data, level)
    if m == "Brotli":
        import brotli

        level = spec.get("level", 4)
        return M_BROTLI, bytes([1, 0, level]), brotli.compress(data, quality=level)
    if m == "PPMd":
        import pyppmd

        order = spec.get("order", 6)
        mem = spec.get("mem", 1 << 20)
        e = pyppmd.Ppmd7Encoder(order, mem)
        return M_PPMD, struct.pack("<BL", order, mem), e.encode(data) + e.flush()
    if m == "7zAES":
        from Cryptodome.Cipher import AES
        import os as _os

        cycles = spec.get("cycles", 10)
        salt = bytes.fromhex(spec["salt"]) if "salt" in spec else b""
        ivlen = spec.get("ivlen", 16)
        iv = bytes.fromhex(spec["iv"]) if "iv" in spec else (bytes(rng.getrandbits(8) for _ in range(ivlen)) if rng else _os.urandom(ivlen))
        key = derive_key(password, cycles, salt)
        c = AES.new(key, AES.MODE_CBC, iv + bytes(16 - len(iv)))
        padded = data + bytes(-len(data) & 15)
        return M_AES, make_aes_props(cycles, salt, iv), c.encrypt(padded)
    if m == "RAW":  # data passed through under an arbitrary method id (for unsupported-coder cases)
        return bytes.fromhex(spec["id"]), (bytes.fromhex(spec["props"]) if spec.get("props") is not None else None), data
    raise ValueError("unknown coder spec %r" % (spec,))
