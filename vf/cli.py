"""./check <ID> [--tier quick|thorough] [--replay FILE] [--list]

Runs one property's workload under its monitors, writes evidence/<ID>.json, prints
VIOLATION / KNOWN-FINDING lines, exits 0 (held on everything observed), 1 (violation not
listed as known) or 2 (inconclusive: deciding monitor not reached / too many undecided cases).
"""
import argparse
import hashlib
import importlib
import json
import os
import random
import subprocess
import sys
import time

ROOT = os.path.dirname(os.path.dirname(os.path.abspath(__file__)))
sys.path.insert(0, ROOT)

from vf.core import runner  # noqa: E402


def tree_id():
    root = os.environ.get("VERIF_REPO", "/repo")
    h = hashlib.sha256()
    n = 0
    pk = os.path.join(root, "py7zr")
    for fn in sorted(os.listdir(pk)):
        if fn.endswith(".py"):
            with open(os.path.join(pk, fn), "rb") as f:
                h.update(fn.encode() + b"\0" + f.read())
            n += 1
    try:
        head = subprocess.run(["git", "-C", root, "rev-parse", "HEAD"], capture_output=True, text=True, timeout=20).stdout.strip()
    except Exception:
        head = "?"
    return {"root": root, "head": head, "py_files": n, "sha256": h.hexdigest()[:16]}


def load_findings():
    p = os.path.join(ROOT, "known_findings.json")
    try:
        with open(p) as f:
            return json.load(f).get("findings", [])
    except FileNotFoundError:
        return []


def main(argv=None):
    ap = argparse.ArgumentParser()
    ap.add_argument("prop")
    ap.add_argument("--tier", default=os.environ.get("VERIF_TIER", "quick"))
    ap.add_argument("--replay")
    ap.add_argument("--workers", type=int)
    ap.add_argument("--max-cases", type=int)
    args = ap.parse_args(argv)
    pid = args.prop.upper()
    modname = pid.lower()
    tier = args.tier if args.tier in ("quick", "thorough") else "quick"
    seed = int(os.environ.get("VERIF_SEED", "0") or 0)
    mod = importlib.import_module("vf.props." + modname)
    t0 = time.monotonic()

    if args.replay:
        with open(args.replay) as f:
            rep = json.load(f)
        case = rep["case"]
        res = runner.run_cases(modname, [case], mod, workers=1, progress=False)
        print(json.dumps(res[0][1], indent=1)[:20000])
        return 1 if res[0][1].get("verdict") == "violated" else 0

    rng = random.Random("%s/%s/%d" % (pid, tier, seed))
    cases = list(mod.cases(rng, tier))
    if args.max_cases:
        cases = cases[: args.max_cases]
    print("%s tier=%s seed=%d: %d cases" % (pid, tier, seed, len(cases)), file=sys.stderr, flush=True)
    budget = getattr(mod, "TIER_BUDGET_S", {}).get(tier)
    os.environ["VF_RUN_TAG"] = str(os.getpid())
    try:
        results = runner.run_cases(modname, cases, mod, workers=args.workers, budget_s=budget)
    finally:
        from vf.core import pz as _pz

        _pz.sweep_scratch(os.environ["VF_RUN_TAG"])

    import fnmatch

    known_list = [k for k in load_findings() if k.get("status") == "known" and k["property"] == pid]

    class _Known(dict):
        """(pid, key) lookup; a listed key may be a glob pattern over the structured mechanism key
        (e.g. 'decode-error|*packpos=>0*' = every failing case whose minimal failing feature set needs packpos>0)."""

        def _find(self, item):
            for k in known_list:
                if fnmatch.fnmatchcase(item[1], k["key"]):
                    return k
            return None

        def __contains__(self, item):
            return self._find(item) is not None

        def __getitem__(self, item):
            return self._find(item)

    known = _Known()
    viol = {}
    known_hit = {}
    inconc = {}
    cells = set()
    obs = {}
    n_eval = 0
    n_skipped = 0
    samples = []
    for case, res in results:
        v = res.get("verdict")
        if v == "skipped":
            n_skipped += 1
            continue
        n_eval += 1
        for k, n in (res.get("obs") or {}).items():
            if isinstance(n, (int, float)):
                obs[k] = max(obs.get(k, 0), n) if k.startswith("max_") else obs.get(k, 0) + n
        for sub in res.get("cells") or ([res["cell"]] if res.get("cell") else []):
            if res.get("nontrivial", True):
                cells.add(json.dumps(sub, sort_keys=True) if not isinstance(sub, str) else sub)
        if len(samples) < 3 and v == "held" and res.get("sample") is not None:
            samples.append(res["sample"])
        if v == "violated":
            for item in res.get("violations") or [{"key": res.get("key", "unclassified"), "what": res.get("what", "")}]:
                key = item["key"]
                if (pid, key) in known:
                    known_hit.setdefault(key, []).append((case, res, item))
                else:
                    viol.setdefault(key, []).append((case, res, item))
        elif v == "inconclusive":
            inconc.setdefault(res.get("key", "?"), []).append((case, res))
    if not samples:
        for case, res in results[:2]:
            samples.append(res.get("sample") or _shorten(case))

    rdir = os.path.join(os.environ.get("VF_REPLAY_DIR") or os.path.join(ROOT, "replay"), pid)
    if os.path.isdir(rdir):
        for fn in os.listdir(rdir):
            if fn.endswith(".json"):
                os.unlink(os.path.join(rdir, fn))
    lines = []
    for key, items in viol.items():
        os.makedirs(rdir, exist_ok=True)
        case, res, item = items[0]
        path = os.path.join(rdir, "%s.json" % _safe(key))
        with open(path, "w") as f:
            json.dump({"property": pid, "key": key, "what": item.get("what"), "case": case, "result": res, "seed": seed, "tier": tier, "count": len(items)}, f, indent=1, default=str)
        lines.append("VIOLATION property=%s replay=%s  # key=%s x%d: %s" % (pid, path, key, len(items), (item.get("what") or "")[:300]))
    for key, items in known_hit.items():
        print("KNOWN-FINDING: property=%s key=%s x%d: %s | observed in this run: %s | case: %s" % (
            pid, key, len(items), known[(pid, key)]["what"][:300], (items[0][2].get("what") or "")[:300], json.dumps(_shorten(items[0][0]), default=str)[:300]))
    import fnmatch as _fn
    for k in known_list:
        if not any(_fn.fnmatchcase(h, k["key"]) for h in known_hit):
            print("KNOWN-FINDING: property=%s key=%s (listed; not met in this run): %s" % (pid, k["key"], k["what"][:200]))
    for ln in lines[:10]:
        print(ln)
    if len(lines) > 10:
        print("# ... %d more distinct violation keys" % (len(lines) - 10))

    n_inc = sum(len(v) for v in inconc.values())
    status = "held"
    reasons = []
    if viol:
        status = "violated"
    else:
        need = getattr(mod, "REQUIRED_OBS", [])
        for k in need:
            if not obs.get(k):
                reasons.append("monitor counter %s is zero" % k)
        if n_eval == 0:
            reasons.append("no case evaluated")
        if n_inc > max(2, 0.02 * max(1, n_eval)):
            reasons.append("%d of %d cases inconclusive (%s)" % (n_inc, n_eval, ", ".join("%s x%d" % (k, len(v)) for k, v in list(inconc.items())[:5])))
        if len(cells) < 2:
            reasons.append("fewer than 2 distinct non-trivial cases")
        if reasons:
            status = "inconclusive"

    ev = {
        "property_id": pid,
        "tier": tier,
        "seed": seed,
        "level": getattr(mod, "LEVEL", "exploration"),
        "coverage": {
            "evaluations": n_eval,
            "distinct_nontrivial": len(cells),
            "rule": getattr(mod, "RULE", ""),
            "samples": samples[:3],
            "monitors": {k: obs[k] for k in sorted(obs)},
            "inconclusive": {k: len(v) for k, v in inconc.items()},
            "inconclusive_examples": {k: (v[0][1].get("what") or "")[:300] for k, v in list(inconc.items())[:6]},
            "skipped_for_time": n_skipped,
            "known_findings_hit": {k: len(v) for k, v in known_hit.items()},
            "known_findings_observed": {k: (v[0][2].get("what") or "")[:400] for k, v in known_hit.items()},
            "violation_keys": {k: len(v) for k, v in viol.items()},
            "status": status,
            "status_reasons": reasons,
            "tree": tree_id(),
        },
        "assumptions": list(getattr(mod, "ASSUMPTIONS", [])),
        "wall_s": round(time.monotonic() - t0, 2),
        "violations": sum(len(v) for v in viol.values()),
    }
    if getattr(mod, "EXHAUSTIVE", {}).get(tier):
        ev["coverage"]["exhaustive_subspace"] = mod.EXHAUSTIVE[tier]
    if hasattr(mod, "evidence_extra"):
        ev["coverage"].update(mod.evidence_extra(results, tier))
    evdir = os.environ.get("VF_EVIDENCE_DIR") or os.path.join(ROOT, "evidence")  # seeded-break drills write elsewhere
    os.makedirs(evdir, exist_ok=True)
    with open(os.path.join(evdir, "%s.json" % pid), "w") as f:
        json.dump(ev, f, indent=1, default=str)
    print("%s: %s  evaluations=%d distinct=%d inconclusive=%d known=%d violations=%d wall=%.0fs" % (
        pid, status, n_eval, len(cells), n_inc, sum(len(v) for v in known_hit.values()), ev["violations"], ev["wall_s"]), file=sys.stderr)
    if status == "violated":
        return 1
    if status == "inconclusive":
        for r in reasons:
            print("INCONCLUSIVE property=%s reason=%s" % (pid, r))
        return 2
    return 0


def _safe(s):
    return "".join(c if c.isalnum() or c in "-_." else "_" for c in s)[:120]


def _shorten(x, n=400):
    s = json.dumps(x, default=str)
    return x if len(s) <= n else s[:n] + "..."


if __name__ == "__main__":
    sys.exit(main())
