"""Controlled cooperative scheduling of py7zr's worker threads (C13, C18).

Worker threads are discovered by wrapping threading.Thread.start/run/join while a Sched is
installed.  *Gates* sit at the client boundary (WriterFactory.create, Py7zIO.write, callback
methods): a thread arriving at a gate parks; a controller thread waits until every live worker
is parked or finished (or, for threads that block elsewhere such as the progress reporter on
its queue, until a short quiescence timeout), then releases exactly one according to the
schedule.  Workers are held at their first gate until the spawning thread enters join(), i.e.
until all workers exist - otherwise the enabled set at a step would depend on spawn timing.

A schedule is a list of choice indices into the sorted list of parked thread ids at each step;
missing positions are filled by a policy (0 = lowest id first, or a seeded RNG).  The executed
trace (thread id, gate label) is recorded; `options` records how many threads were enabled at
each step so that the caller can enumerate the schedule tree depth-first by replay.
"""
import threading
import time

_active = None
_orig = {}


class Sched:
    def __init__(self, prefix=(), rng=None, quiesce_s=0.05, hold_until_join=True):
        self.cond = threading.Condition()
        self.prefix = list(prefix)
        self.rng = rng
        self.quiesce_s = quiesce_s
        self.hold_until_join = hold_until_join
        self.ids = {}          # thread ident -> small id in start order
        self.live = set()
        self.parked = {}       # id -> label
        self.turn = None
        self.joining = False
        self.trace = []
        self.options = []
        self.done = False
        self.step = 0
        self.workers_seen = 0
        self.ctrl = threading.Thread(target=self._controller, name="vf-sched", daemon=True)
        self.ctrl._vf_internal = True

    # ---- hooks called from wrapped Thread methods
    def on_start(self, t):
        with self.cond:
            sid = len(self.ids)
            self.ids[t] = sid
            self.live.add(sid)
            self.workers_seen += 1
            self.cond.notify_all()
        return sid

    def on_finish(self, t):
        with self.cond:
            sid = self.ids.get(t)
            self.live.discard(sid)
            self.parked.pop(sid, None)
            self.cond.notify_all()

    def on_join(self):
        with self.cond:
            if not self.joining:
                self.joining = True
                self.cond.notify_all()

    # ---- gate
    def gate(self, label):
        t = threading.current_thread()
        sid = self.ids.get(t)
        if sid is None:
            return  # not a scheduled thread (e.g. the spawning thread)
        with self.cond:
            self.parked[sid] = label
            self.cond.notify_all()
            deadline = time.monotonic() + 30.0
            while self.turn != sid and not self.done:
                self.cond.wait(0.5)
                if time.monotonic() > deadline:  # never deadlock the code under test because of the monitor
                    break
            if self.turn == sid:
                self.turn = None
            self.parked.pop(sid, None)
            self.cond.notify_all()

    # ---- controller
    def _controller(self):
        with self.cond:
            while not self.done:
                # wait for something parked
                if not self.parked or self.turn is not None:
                    self.cond.wait(0.05)
                    continue
                # quiescence: all live threads parked (exact), or nothing changes for quiesce_s
                t0 = time.monotonic()
                while not self.done and self.turn is None:
                    if self.hold_until_join and not self.joining and self.workers_seen:
                        # hold workers until the spawner joins (all workers exist)
                        self.cond.wait(0.02)
                        if time.monotonic() - t0 > 1.0:
                            break
                        continue
                    if self.live and self.live.issubset(self.parked.keys()):
                        break
                    if time.monotonic() - t0 > self.quiesce_s:
                        break
                    self.cond.wait(0.005)
                if self.done or not self.parked:
                    continue
                enabled = sorted(self.parked)
                if self.step < len(self.prefix):
                    k = self.prefix[self.step] % len(enabled)
                elif self.rng is not None:
                    k = self.rng.randrange(len(enabled))
                else:
                    k = 0
                self.options.append(len(enabled))
                chosen = enabled[k]
                self.trace.append((chosen, self.parked[chosen], k))
                self.step += 1
                self.turn = chosen
                self.cond.notify_all()

    def start(self):
        self.ctrl.start()

    def stop(self):
        with self.cond:
            self.done = True
            self.cond.notify_all()


def install(s: Sched):
    """Wrap threading.Thread.start/run/join for the duration of a scheduled call."""
    global _active
    _active = s
    T = threading.Thread
    if not _orig:
        _orig["start"], _orig["join"], _orig["run"] = T.start, T.join, T.run

        def start(self, *a, **k):
            s_ = _active
            if s_ is not None and not getattr(self, "_vf_internal", False):
                s_.on_start(self)
                orig_run = self.run

                def run():
                    try:
                        orig_run()
                    finally:
                        s2 = _active
                        if s2 is not None:
                            s2.on_finish(self)

                self.run = run
            return _orig["start"](self, *a, **k)

        def join(self, *a, **k):
            s_ = _active
            if s_ is not None and self in s_.ids:
                s_.on_join()
            return _orig["join"](self, *a, **k)

        T.start = start
        T.join = join
    s.start()


def uninstall():
    global _active
    s = _active
    _active = None
    if s is not None:
        s.stop()


def gate(label):
    s = _active
    if s is not None:
        s.gate(label)


def next_prefix(options, executed_choices):
    """Depth-first successor of an executed schedule: increment the deepest position that still has
    an untried option. Returns None when the tree is exhausted."""
    ch = list(executed_choices)
    i = len(ch) - 1
    while i >= 0:
        if ch[i] + 1 < options[i]:
            return ch[: i] + [ch[i] + 1]
        i -= 1
    return None
