"""Runtime contracts on real py7zr functions, attached from outside (no repository edit).

Alias-aware: a function is replaced everywhere it is bound inside py7zr.* (module dicts and
class dicts), because `from py7zr.helpers import calculate_crc32` style imports would
otherwise bypass the wrapper.  Contracts record and return: they append to a violation log and
never raise inside the code under test.  Every contract counts its evaluations; the check turns
"zero evaluations" into an inconclusive verdict.
"""
import io
import sys
import threading
import zlib
from collections import Counter

from vf.ref7z import numbers as refnum

_lock = threading.Lock()
counts = Counter()
violations = []  # (contract, message)
_installed = False
_undo = []


def _viol(name, msg):
    with _lock:
        if len(violations) < 50:
            violations.append((name, msg))


def _count(name):
    with _lock:
        counts[name] += 1


def _rebind(orig, new):
    """Replace `orig` by `new` in every py7zr module dict and class dict."""
    n = 0
    for mname, mod in list(sys.modules.items()):
        if not (mname == "py7zr" or mname.startswith("py7zr.")) or mod is None:
            continue
        for k, v in list(vars(mod).items()):
            if v is orig:
                setattr(mod, k, new)
                _undo.append((mod, k, orig))
                n += 1
            elif isinstance(v, type) and getattr(v, "__module__", "").startswith("py7zr"):
                for ck, cv in list(vars(v).items()):
                    target = cv.__func__ if isinstance(cv, (staticmethod, classmethod)) else cv
                    if target is orig:
                        if isinstance(cv, staticmethod):
                            setattr(v, ck, staticmethod(new))
                        elif isinstance(cv, classmethod):
                            setattr(v, ck, classmethod(new))
                        else:
                            setattr(v, ck, new)
                        _undo.append((v, ck, cv))
                        n += 1
    return n


class _ReadTap:
    def __init__(self, fd):
        self._fd = fd
        self.n = 0
        self.crc = 0

    def read(self, *a, **k):
        d = self._fd.read(*a, **k)
        if d:
            self.n += len(d)
            self.crc = zlib.crc32(d, self.crc)
        return d

    def __getattr__(self, name):
        return getattr(self._fd, name)


class _WriteTap:
    def __init__(self, fp):
        self._fp = fp
        self.n = 0
        self.crc = 0

    def write(self, d):
        self.n += len(d)
        self.crc = zlib.crc32(d, self.crc)
        return self._fp.write(d)

    def __getattr__(self, name):
        return getattr(self._fp, name)


def install():
    global _installed
    if _installed:
        return
    _installed = True
    import py7zr  # noqa
    from py7zr import archiveinfo as A
    from py7zr import compressor as C
    from py7zr import py7zr as P

    # ---- NUMBER
    o_wu = A.write_uint64

    def write_uint64(file, value):
        _count("write_uint64")
        tmp = io.BytesIO()
        o_wu(tmp, value)
        b = tmp.getvalue()
        try:
            if len(b) > 9:
                _viol("write_uint64", "value %d emitted as %d bytes" % (value, len(b)))
            v, p = refnum.decode_number(b, 0)
            if v != value or p != len(b):
                _viol("write_uint64", "value %d emitted as %s which the reference decodes to %d (%d bytes used)" % (value, b.hex(), v, p))
            back = A.read_uint64(io.BytesIO(b))
            if back != value:
                _viol("write_uint64", "value %d emitted as %s which py7zr reads back as %d" % (value, b.hex(), back))
        except Exception as e:
            _viol("write_uint64", "value %r emitted as %s: %s" % (value, b.hex(), e))
        return file.write(b) if False else _emit(file, b)

    def _emit(file, b):
        file.write(b)

    o_ru = A.read_uint64

    def read_uint64(file):
        _count("read_uint64")
        pos = None
        if isinstance(file, io.BytesIO):
            pos = file.tell()
        v = o_ru(file)
        if pos is not None:
            buf = file.getbuffer()
            try:
                rv, rp = refnum.decode_number(buf, pos)
                if rv != v or rp != file.tell():
                    _viol("read_uint64", "bytes %s read as %d (to %d), reference: %d (to %d)" % (bytes(buf[pos:pos + 9]).hex(), v, file.tell(), rv, rp))
            except refnum.RefError:
                pass
            finally:
                del buf
        return v

    _rebind(o_wu, write_uint64)
    _rebind(o_ru, read_uint64)

    # ---- boolean vectors
    o_wb = A.write_boolean

    def write_boolean(file, booleans, all_defined=False):
        _count("write_boolean")
        tmp = io.BytesIO()
        o_wb(tmp, booleans, all_defined)
        b = tmp.getvalue()
        try:
            bl = [bool(x) for x in booleans]
            if all_defined:
                got, p = refnum.decode_defined_vector(b, 0, len(bl))
            else:
                got, p = refnum.decode_bits(b, 0, len(bl))
            if got != bl or p != len(b):
                _viol("write_boolean", "vector of %d (all_defined=%s) emitted as %s, reference decodes %d bytes to a different vector" % (len(bl), all_defined, b.hex()[:80], p))
        except Exception as e:
            _viol("write_boolean", "vector of %d emitted as %s: %s" % (len(booleans), b.hex()[:80], e))
        file.write(b)

    _rebind(o_wb, write_boolean)

    o_rb = A.read_boolean

    def read_boolean(file, count, checkall=False):
        _count("read_boolean")
        pos = file.tell() if isinstance(file, io.BytesIO) else None
        v = o_rb(file, count, checkall)
        if pos is not None and count < (1 << 20):
            buf = file.getbuffer()
            try:
                if checkall:
                    rv, rp = refnum.decode_defined_vector(buf, pos, count)
                else:
                    rv, rp = refnum.decode_bits(buf, pos, count)
                if rv != list(v) or rp != file.tell():
                    _viol("read_boolean", "vector of %d read differently from the reference" % count)
            except refnum.RefError:
                pass
            finally:
                del buf
        return v

    _rebind(o_rb, read_boolean)

    # ---- names
    o_wn = A.write_utf16

    def write_utf16(file, val):
        _count("write_utf16")
        tmp = io.BytesIO()
        o_wn(tmp, val)
        b = tmp.getvalue()
        try:
            got, p = refnum.decode_utf16_name(b, 0)
            if got != val or p != len(b):
                _viol("write_utf16", "name %r emitted as %s, reference reads %r" % (val, b.hex()[:80], got))
        except Exception as e:
            _viol("write_utf16", "name %r: %s" % (val, e))
        file.write(b)

    _rebind(o_wn, write_utf16)

    # ---- compressor conservation
    o_cc = C.SevenZipCompressor.compress

    def compress(self, fd, fp, crc=0):
        _count("SevenZipCompressor.compress")
        rt, wt = _ReadTap(fd), _WriteTap(fp)
        before = self.packsize
        insize, foutsize, rcrc = o_cc(self, rt, wt, crc)
        if insize != rt.n:
            _viol("SevenZipCompressor.compress", "returned insize %d but %d bytes were read from the source" % (insize, rt.n))
        if crc == 0 and (rcrc & 0xFFFFFFFF) != (rt.crc & 0xFFFFFFFF):
            _viol("SevenZipCompressor.compress", "returned crc %08x, CRC32 of the bytes read is %08x" % (rcrc, rt.crc))
        if foutsize != wt.n:
            _viol("SevenZipCompressor.compress", "returned foutsize %d but %d bytes were written" % (foutsize, wt.n))
        if self.packsize - before != wt.n:
            _viol("SevenZipCompressor.compress", "packsize advanced by %d, %d bytes written" % (self.packsize - before, wt.n))
        return insize, foutsize, rcrc

    C.SevenZipCompressor.compress = compress
    _undo.append((C.SevenZipCompressor, "compress", o_cc))

    o_cf = C.SevenZipCompressor.flush

    def flush(self, fp):
        _count("SevenZipCompressor.flush")
        wt = _WriteTap(fp)
        before = self.packsize
        n = o_cf(self, wt)
        if n != wt.n:
            _viol("SevenZipCompressor.flush", "returned %d but wrote %d bytes" % (n, wt.n))
        if self.packsize - before != wt.n:
            _viol("SevenZipCompressor.flush", "packsize advanced by %d, %d bytes written" % (self.packsize - before, wt.n))
        return n

    C.SevenZipCompressor.flush = flush
    _undo.append((C.SevenZipCompressor, "flush", o_cf))

    # ---- decompressor: max_length respected (ledger only recorded)
    o_dd = C.SevenZipDecompressor.decompress

    def decompress(self, fp, max_length=-1):
        _count("SevenZipDecompressor.decompress")
        res = o_dd(self, fp, max_length)
        if max_length >= 0 and len(res) > max_length:
            _viol("SevenZipDecompressor.decompress", "returned %d bytes for max_length %d" % (len(res), max_length))
        return res

    C.SevenZipDecompressor.decompress = decompress
    _undo.append((C.SevenZipDecompressor, "decompress", o_dd))

    # ---- Worker.decompress: bytes delivered == size, returned crc == crc of delivered bytes
    o_wd = P.Worker.decompress

    def wdecompress(self, fp, folder, fq, size, compressed_size, src_end, q=None):
        _count("Worker.decompress")
        wt = _WriteTap(fq)
        rcrc = o_wd(self, fp, folder, wt, size, compressed_size, src_end, q)
        if wt.n != size:
            _viol("Worker.decompress", "delivered %d bytes for a member of declared size %d" % (wt.n, size))
        if (rcrc & 0xFFFFFFFF) != (wt.crc & 0xFFFFFFFF):
            _viol("Worker.decompress", "returned crc %08x, CRC32 of delivered bytes %08x" % (rcrc, wt.crc))
        return rcrc

    P.Worker.decompress = wdecompress
    _undo.append((P.Worker, "decompress", o_wd))


def snapshot():
    with _lock:
        return dict(counts), list(violations)


def reset():
    with _lock:
        counts.clear()
        del violations[:]
