"""C03 monitor: audit-hook recorder of mutating file-system calls, classified against a jail root,
plus before/after snapshots of everything around the destination."""
import hashlib
import os
import stat
import sys
import threading

_state = {"active": False, "root": None, "events": [], "outside": [], "inside": 0}
_lock = threading.Lock()
_installed = False

WRITE_FLAGS = os.O_WRONLY | os.O_RDWR | os.O_CREAT | os.O_TRUNC | os.O_APPEND


def _resolve(path, follow_final):
    """Where the syscall will land: parent through realpath, final component followed or not."""
    if isinstance(path, bytes):
        path = os.fsdecode(path)
    path = os.fspath(path)
    if not os.path.isabs(path):
        path = os.path.join(os.getcwd(), path)
    if follow_final:
        return os.path.realpath(path)
    head, tail = os.path.split(path.rstrip("/") or "/")
    if tail in ("", ".", ".."):
        return os.path.realpath(path)
    return os.path.join(os.path.realpath(head), tail)


def _inside(loc, root):
    return loc == root or loc.startswith(root + "/")


def _record(kind, path, follow):
    st = _state
    try:
        loc = _resolve(path, follow)
    except Exception as e:  # pragma: no cover
        loc = "?unresolvable:%r:%s" % (path, e)
    root = st["root"]
    ok = _inside(loc, root) or (kind == "os.mkdir" and root.startswith(loc + "/"))  # creating missing ancestors of D is allowed
    with _lock:
        if ok:
            st["inside"] += 1
        else:
            if len(st["outside"]) < 20:
                st["outside"].append({"event": kind, "path": str(path), "resolves_to": loc})
        if len(st["events"]) < 200:
            st["events"].append((kind, str(path)))


def _hook(event, args):
    if not _state["active"]:
        return
    try:
        if event == "open":
            path, mode, flags = args
            if isinstance(path, int) or path is None:
                return
            writeish = (flags is not None and (flags & WRITE_FLAGS)) or (isinstance(mode, str) and any(c in mode for c in "wax+"))
            if writeish:
                _record("open-write", path, True)
        elif event in ("os.mkdir", "os.rmdir", "os.remove", "os.truncate"):
            _record(event, args[0], event == "os.truncate")
        elif event == "os.symlink":
            _record(event, args[1], False)
        elif event == "os.link":
            _record(event, args[1], False)
        elif event == "os.rename":
            _record("os.rename-src", args[0], False)
            _record("os.rename-dst", args[1], False)
        elif event in ("os.chmod", "os.chown", "os.utime"):
            if isinstance(args[0], int):
                return
            _record(event, args[0], True)
        elif event.startswith("shutil."):
            for a in args[:2]:
                if isinstance(a, (str, bytes, os.PathLike)):
                    _record(event, a, False)
    except Exception:  # the monitor must never disturb the code under test
        pass


def install():
    global _installed
    if not _installed:
        sys.addaudithook(_hook)
        _installed = True


def start(root):
    _state.update(active=False, root=os.path.realpath(root), events=[], outside=[], inside=0)
    _state["active"] = True


def stop():
    _state["active"] = False
    return {"outside": list(_state["outside"]), "inside": _state["inside"], "events": list(_state["events"])}


def snapshot(root, exclude, hashing=True):
    """Everything under root except the subtree `exclude`: path -> (type, mode, size, mtime_ns, link text, sha256)."""
    out = {}
    exclude = os.path.abspath(exclude)
    for dp, dns, fns in os.walk(root, followlinks=False):
        if os.path.abspath(dp) == exclude:
            dns[:] = []
            continue
        dns[:] = [d for d in dns if os.path.abspath(os.path.join(dp, d)) != exclude]
        for n in dns + fns:
            p = os.path.join(dp, n)
            st = os.lstat(p)
            if stat.S_ISLNK(st.st_mode):
                out[p] = ("l", 0, 0, 0, os.readlink(p), "")
            elif stat.S_ISDIR(st.st_mode):
                out[p] = ("d", stat.S_IMODE(st.st_mode), 0, st.st_mtime_ns, "", "")
            else:
                h = ""
                if hashing:
                    with open(p, "rb") as f:
                        h = hashlib.sha256(f.read()).hexdigest()[:16]
                out[p] = ("f", stat.S_IMODE(st.st_mode), st.st_size, st.st_mtime_ns, "", h)
    return out


def same_stat(before, after, dest=None):
    """Cheap comparison ignoring content hashes (type, mode, size, mtime, link text, path set)."""
    if before.keys() != after.keys():
        return False
    anc = set()
    if dest:
        q = os.path.abspath(dest)
        while q != "/":
            q = os.path.dirname(q)
            anc.add(q)
    for p, b in before.items():
        a = after[p]
        if b[:5] != a[:5]:
            if p in anc and b[:3] == a[:3] and b[4] == a[4]:
                continue
            return False
    return True


def corroborated(outside_events):
    """Audit events are *attempts*. An attempt outside the jail is a violation by itself only when
    a create-type event is later undone by a remove-type event at the same resolved location
    (create-then-remove leaves no trace in the snapshot); everything else must show in the snapshot."""
    created = set()
    for e in outside_events:
        if e["event"] in ("open-write", "os.mkdir", "os.symlink", "os.link", "os.rename-dst"):
            created.add(e["resolves_to"])
        elif e["event"] in ("os.remove", "os.rmdir", "os.rename-src") and e["resolves_to"] in created:
            return [e]
    return []


def diff(before, after, dest=None):
    """dest: the destination directory; the mtime of its ancestors legitimately changes when it is created."""
    out = []
    anc = set()
    if dest:
        q = os.path.abspath(dest)
        while q != "/":
            q = os.path.dirname(q)
            anc.add(q)
    for p in sorted(set(before) | set(after)):
        if p not in before:
            out.append(("created", p, after[p][0]))
        elif p not in after:
            out.append(("removed", p, before[p][0]))
        elif before[p] != after[p]:
            b, a = before[p], after[p]
            what = "retyped" if b[0] != a[0] else "content" if (b[2], b[5], b[4]) != (a[2], a[5], a[4]) else "mode" if b[1] != a[1] else "mtime"
            if what == "mtime" and p in anc:
                continue
            out.append((what, p, a[0]))
    return out
