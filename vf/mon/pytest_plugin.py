"""pytest plugin (C07 thorough): the repository's own tests become a workload and the strict
reference reader the oracle.  Every archive a test closes in a write mode is parsed; findings are
appended as JSON lines to $VF_PLUGIN_REPORT.  Loaded with `-p vf.mon.pytest_plugin`."""
import io
import json
import os

_report = os.environ.get("VF_PLUGIN_REPORT")


def _note(rec):
    if _report:
        with open(_report, "a") as f:
            f.write(json.dumps(rec) + "\n")


def pytest_configure(config):
    import py7zr

    from vf.ref7z import reader as R

    orig_close = py7zr.SevenZipFile.close

    def close(self):
        mode = getattr(self, "mode", "r")
        pw = None
        try:
            pw = self.header.password
        except Exception:
            pass
        fp = getattr(self, "fp", None)
        fname = getattr(self, "filename", None)
        passed = getattr(self, "_filePassed", False)
        ret = orig_close(self)
        if mode not in ("w", "a"):
            return ret
        data = None
        try:
            if passed and isinstance(fp, io.BytesIO):
                data = fp.getvalue()
            elif not passed and fname and os.path.isfile(fname):
                with open(fname, "rb") as f:
                    data = f.read()
        except Exception:
            data = None
        if data is None or len(data) > (64 << 20):
            _note({"test": os.environ.get("PYTEST_CURRENT_TEST", "?"), "skipped": True})
            return ret
        rec = {"test": os.environ.get("PYTEST_CURRENT_TEST", "?"), "mode": mode, "bytes": len(data)}
        try:
            arc = R.parse(data, pw)
            rec["members"] = len(arc.members)
            rec["findings"] = arc.findings[:5]
        except R.RefUnsupported as e:
            rec["unsupported"] = str(e)[:100]
        except Exception as e:
            rec["error"] = "%s: %s" % (type(e).__name__, str(e)[:200])
        _note(rec)
        return ret

    py7zr.SevenZipFile.close = close
