#!/bin/sh
# Offline, idempotent. Nothing to build: the harness is pure Python run by /venv/bin/python,
# and py7zr is imported from /repo's working tree through /venv's editable install.
set -e
cd "$(dirname "$0")"
mkdir -p evidence replay
/venv/bin/python - <<'PY'
import sys
sys.path.insert(0, ".")
from vf.ref7z import selfcheck
sys.exit(selfcheck.main())
PY
