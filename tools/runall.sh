#!/bin/sh
# tools/runall.sh <tier> <ids...>  -> logs under /tmp/vf-logs (exploratory runs: evidence goes to $VF_EVIDENCE_DIR if set)
mkdir -p /tmp/vf-logs
tier=$1; shift
for id in "$@"; do
  ( /usr/bin/time -f "%e s" ./check $id --tier $tier > /tmp/vf-logs/$id.$tier.s${VERIF_SEED:-0}.log 2>&1; echo "EXIT $?" >> /tmp/vf-logs/$id.$tier.s${VERIF_SEED:-0}.log )
done
