#!/bin/sh
# tools/runall.sh <tier> <ids...>  -> logs under /tmp/vf-logs
mkdir -p /tmp/vf-logs
tier=$1; shift
for id in "$@"; do
  ( /usr/bin/time -f "%e s" ./check $id --tier $tier > /tmp/vf-logs/$id.$tier.log 2>&1; echo "EXIT $?" >> /tmp/vf-logs/$id.$tier.log )
done
