#!/bin/sh
# tools/seedtest.sh <worktree-with-patch-applied> <seed-name> <check ids...>
# Confirms a seeded break (tests pass with it, demo fails with it and passes without) and runs the named
# quick checks against the patched tree (VERIF_REPO), leaving /repo and /verif/evidence untouched.
wt=$1; name=$2; shift 2
out=/tmp/vf-seed/$name; mkdir -p $out
cd $wt || exit 2
git diff -- py7zr > $out/patch.diff
echo "== tests with patch"; PYTHONPATH=$wt /venv/bin/python -m pytest -q -p no:cacheprovider --timeout=900 -x -n 8 2>&1 | tail -1
rm -f tests/data/test_multiple.7z
echo "== demo with patch"; (cd seed && PYTHONPATH=$wt timeout 600 /venv/bin/python demo.py > $out/demo_with.log 2>&1; echo "exit $?")
# (no git stash: the stash stack is shared by all worktrees of a repository)
git apply -R $out/patch.diff
echo "== demo without patch"; (cd seed && PYTHONPATH=$wt timeout 600 /venv/bin/python demo.py > $out/demo_without.log 2>&1; echo "exit $?")
git apply $out/patch.diff
cd /verif
for id in "$@"; do
  echo "== check $id against patched tree"
  VERIF_REPO=$wt VF_EVIDENCE_DIR=$out/evidence VF_REPLAY_DIR=$out/replay timeout 1800 ./check $id --tier quick > $out/check_$id.log 2>&1
  echo "exit $?"; grep -E "^(VIOLATION|KNOWN|INCONCLUSIVE)" $out/check_$id.log | cut -c1-260 | head -5
done
