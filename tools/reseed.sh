#!/bin/sh
# tools/reseed.sh [seed-name...]  — regression drill: every kept seed (seeded/<name>/patch.diff) is applied to a scratch
# worktree of /repo's HEAD and the checks its meta.json names under caught_by are run against it (quick tier).
# Prints one line per seed: caught / MISSED (+ whether the seed's own demo still fails) / NOAPPLY (the code the patch touches has changed since).
cd /verif || exit 2
names="$@"; [ -z "$names" ] && names=$(ls seeded)
for name in $names; do
  wt=/tmp/reseed-$name
  git -C /repo worktree add -q --detach $wt HEAD || { echo "$name WORKTREE-FAILED"; continue; }
  if (cd $wt && git apply --3way /verif/seeded/$name/patch.diff >/dev/null 2>&1 && ! git diff --name-only --diff-filter=U | grep -q .); then
    ids=$(python3 -c "import json,sys; print(' '.join(json.load(open('seeded/$name/meta.json')).get('caught_by') or []))")
    res=""
    for id in $ids; do
      out=/tmp/reseed-out/$name; mkdir -p $out
      VERIF_REPO=$wt VF_EVIDENCE_DIR=$out/ev VF_REPLAY_DIR=$out/rp VF_WORKERS=${VF_WORKERS:-8} timeout 1800 ./check $id --tier quick > $out/$id.log 2>&1
      if grep -q "^VIOLATION property=$id" $out/$id.log; then res="$res $id:caught"; else res="$res $id:MISSED"; fi
    done
    case "$res" in *MISSED*)
      # does the seeded change still break the property on today's tree? run the seed's own demo (it asserts where py7zr comes from)
      want=$(grep -o 'startswith("/tmp/[^"]*")' seeded/$name/demo.py | head -1 | sed 's/startswith("//; s/")//')
      dwt=${want:-/tmp/reseed-demo}-rs; dwt=$(echo $dwt | sed 's:/$::')
      git -C /repo worktree add -q --detach $dwt HEAD && (cd $dwt && git apply --3way /verif/seeded/$name/patch.diff >/dev/null 2>&1; cp /verif/seeded/$name/demo.py demo_seed.py; PYTHONPATH=$dwt timeout 900 /venv/bin/python demo_seed.py >/dev/null 2>&1; echo $? > /tmp/reseed-demo.rc)
      git -C /repo worktree remove --force $dwt
      if [ "$(cat /tmp/reseed-demo.rc)" = "0" ]; then res="$res NEUTRALISED(the seed's demo passes with the patch on today's tree: a later repair made the change harmless)"; else res="$res demo-still-fails"; fi ;;
    esac
    echo "$name$res"
  else
    echo "$name NOAPPLY"
  fi
  git -C /repo worktree remove --force $wt
done
rm -rf /tmp/reseed-out
