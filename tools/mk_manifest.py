#!/usr/bin/env python3
"""Regenerates MANIFEST.json from the table below (kept in one place so it stays valid)."""
import json
import os

ROOT = os.path.dirname(os.path.dirname(os.path.abspath(__file__)))

CHECKS = {
    # id: (category, technique, text, note)
}
NOT_APPLICABLE = {}


def load_table():
    import importlib.util

    spec = importlib.util.spec_from_file_location("table", os.path.join(ROOT, "tools", "manifest_table.py"))
    m = importlib.util.module_from_spec(spec)
    spec.loader.exec_module(m)
    return m


def main():
    t = load_table()
    checks = []
    for pid in sorted(t.CHECKS):
        c = t.CHECKS[pid]
        checks.append({
            "property_id": pid,
            "quick_cmd": "./check %s --tier quick" % pid,
            "thorough_cmd": "./check %s --tier thorough" % pid,
            "evidence_file": "evidence/%s.json" % pid,
            "replay_cmd_template": "./check %s --replay {path}" % pid,
            "engine": "vf",
            "level_claimed": {"category": c["category"], "text": c["text"], "design_ref": "DESIGN.md section 5, %s" % pid},
            "level_note": c["note"],
            "technique": c["technique"],
        })
    man = {
        "version": 1,
        "setup_cmd": "sh ./setup.sh",
        "hooks": {
            "guard": "PY7ZR_VERIF",
            "enable": "monitors attach from outside the repository (audit hooks, sys.monitoring, alias-aware patching of py7zr functions in the worker process, caller-supplied streams/factories/callbacks); workers run with PY7ZR_VERIF=1; no source hook exists in /repo",
            "baseline_off_cmd": "cd /repo && env -u PY7ZR_VERIF /venv/bin/python -m pytest -ra -q -p no:cacheprovider --timeout=900 --continue-on-collection-errors",
            "source_commits": [],
            "add_only": True,
        },
        "engines": [{
            "name": "vf", "path": "vf/", "serves_properties": sorted(t.CHECKS),
            "kind_free_text": "runtime monitoring harness: worker subprocesses drive the real py7zr under generated/hostile workloads; oracles = independent 7z reader/writer (vf/ref7z), executable models, audit-hook jail, runtime contracts, CPU/RSS budgets, recorded I/O traces, controlled thread schedules",
        }],
        "checks": checks,
        "not_applicable": [{"property_id": k, "reason": v} for k, v in sorted(t.NOT_APPLICABLE.items())],
        "notes": t.NOTES,
    }
    with open(os.path.join(ROOT, "MANIFEST.json"), "w") as f:
        json.dump(man, f, indent=1)
    print("MANIFEST.json: %d checks, %d not_applicable" % (len(checks), len(man["not_applicable"])))


if __name__ == "__main__":
    main()
