#!/bin/sh
# tools/sweep.sh <tier> <seed...>  : every check once per seed, evidence/replays outside /verif; summary lines on stdout
tier=$1; shift
for sd in "$@"; do
  for id in C01 C02 C03 C04 C05 C06 C07 C08 C09 C10 C11 C12 C13 C14 C15 C16 C17 C18 C19 C20; do
    VERIF_SEED=$sd VF_EVIDENCE_DIR=/tmp/vf-sweep/ev-$tier-$sd VF_REPLAY_DIR=/tmp/vf-sweep/replay-$tier-$sd ./check $id --tier $tier > /tmp/vf-sweep-$id-$tier-$sd.log 2>&1
    rc=$?
    echo "seed=$sd $id rc=$rc $(grep -E "^C[0-9]+: " /tmp/vf-sweep-$id-$tier-$sd.log | cut -c1-120)"
    [ $rc -ne 0 ] && grep -E "^(VIOLATION|INCONCLUSIVE)" /tmp/vf-sweep-$id-$tier-$sd.log | cut -c1-300
  done
done
