NOTES = ("All checks are runtime monitors over executions of the real code in /repo (imported through /venv's editable "
         "install, i.e. always the current working tree). Verdicts: exit 0 held on everything observed, exit 1 VIOLATION, "
         "exit 2 INCONCLUSIVE (a deciding monitor observed nothing). Known findings: known_findings.json.")

_PENDING = "check under construction in this session; see DESIGN.md section 5 for the planned monitor"

CHECKS = {
    "C01": dict(
        category="exploration",
        technique="runtime monitoring: history + executable model; differential read-back through three readers; runtime contracts on compressor/decompressor conservation",
        text="Hundreds (quick) to thousands (thorough) of generated write sessions over every documented chain, header mode, target kind, entry point, I/O block size and extraction chunk limit are read back through py7zr (memory and disk) and through an independent reference reader; held means no observed session lost, reordered or altered a member. Sampling, not proof: the space is unbounded.",
        note="Trusted: vf/ref7z (independent reader), the codec libraries, zlib CRC32. Small block/chunk values are injected by rebinding two configuration functions.",
    ),
}

NOT_APPLICABLE = {pid: _PENDING for pid in ["C%02d" % i for i in range(2, 21)]}
