#!/usr/bin/env python3
"""Regenerates known_findings.json: 'known' entries from the table below, 'fixed' entries from the
fix: commits of /repo (hash looked up by subject so that it stays right after history edits)."""
import json
import os
import subprocess

ROOT = os.path.dirname(os.path.dirname(os.path.abspath(__file__)))

KNOWN = [
    ("C01", "codec-library/pyppmd-roundtrip",
     "the third-party PPMd codec (pyppmd 1.1.1), driven directly without any py7zr code, fails to round-trip some incompressible inputs (e.g. 180000 random bytes, order 6, mem 4 MiB: "
     "decoder raises 'L1595: Corrupted input data' or returns wrong bytes), and its encoder produces different (undecodable) output when the same stream is fed in chunks, e.g. behind a pybcj filter "
     "with a 64 KiB model. The classifier replays the exact chunk sequence through pybcj+pyppmd alone; only when that fails is a violation given this key. py7zr inherits the failure for PPMd chains. "
     "Not repairable inside py7zr (prebuilt wheels)."),
    ("C07", "codec-library/pyppmd-roundtrip", "same pyppmd defect as C01: the reference reader cannot decode what pyppmd's encoder produced for that input either."),
    ("C08", "codec-library/pyppmd-roundtrip", "same pyppmd defect as C01, met in an append session with a PPMd chain."),
    ("C01", "codec-library/pybcj-small-feeds",
     "the third-party branch-filter decoders (pybcj 1.0.8; seen with ARMT), driven directly and alone, mis-decode their own encoder's output when fed in pieces of 1-2 bytes. py7zr hands such "
     "pieces over only when the extraction chunk limit is 1 or 2 bytes (get_memory_limit() under an absurdly tight RLIMIT_DATA) and the decoder in front of the filter honours max_length "
     "(BZip2, LZMA1, and since the C20 repair also Deflate/ZStandard/Brotli). The classifier replays the feed sizes through pybcj alone. Not repairable inside py7zr (prebuilt wheel)."),
    ("C01", "codec-library/pyppmd-decoder-crash",
     "pyppmd 1.1.1's Ppmd7Decoder alone (no py7zr code, fresh process) dies with SIGSEGV on the output of its own encoder for some inputs whose data exceed what the model holds "
     "(seen: order 6 / 1 MiB with members of 867+66235+65537+255 bytes; order 2 / 1 MiB behind the x86 filter with members of 31+40000+1550 bytes): the first decode() returns short with "
     "eof=True, the next call crashes, whatever max_length is. py7zr therefore kills the interpreter when it reads back such an archive it wrote itself. Found by the thorough tier (seed 1) and "
     "the quick sweep (seed 6). The classifier re-encodes the members with pyppmd (and pybcj) alone and replays the feed in a child process; only when the child dies from a signal is the "
     "worker's crash filed under this key. Same family as codec-library/pyppmd-roundtrip. Third-party native code."),
    ("C01", "write-raises/RecursionError/mv",
     "third-party multivolumefile recurses once per volume crossed by a single write(): a 64-byte volume size with a 64 KiB member (py7zr hands whole I/O blocks to write()) exceeds "
     "Python's recursion limit. The volumes written before the error are discarded by the failing session. Not repairable inside py7zr without re-chunking every write for that library."),
    ("C20", "codec-library/pyppmd-encoder-memory",
     "pyppmd's Ppmd7Encoder alone (no py7zr code) retains about 1 MiB of memory per MiB it is fed for short-period data (600 MiB in -> 600 MiB RSS rise, 230 KB out): writing a 1.5 GiB "
     "member of that texture with a PPMd chain exceeds the 700 MiB budget although py7zr hands the data over in 1 MiB blocks. Third-party native code."),
    ("C20", "codec-library/inflate64-encoder-memory",
     "inflate64's Deflater alone (no py7zr code) retains about 1 MiB per MiB it is fed (400 MiB in -> 403 MiB RSS rise): writing members above roughly 700 MiB with Deflate64 exceeds the "
     "budget. Third-party native code."),
    ("C20", "codec-library/inflate64-decoder-memory",
     "inflate64's Inflater alone (no py7zr code) retains about 0.7 MiB per MiB of output (600 MiB out -> 407 MiB RSS rise): extracting or testing Deflate64 members above roughly 1 GiB "
     "exceeds the budget although py7zr takes the output in bounded pieces. Mechanism: Inflater.inflate() leaks one reference to its argument (sys.getrefcount 3 -> 4, still 4 after the Inflater is gone), so every input slice stays allocated. Third-party native code."),
    ("C05", "codec-library/pyppmd-alloc-failure-abort",
     "a PPMd coder whose 5-byte property declares a 4 GiB model (mem=0xFFFFFFFF): when that allocation fails (address-space limit, little free memory) pyppmd aborts the process "
     "('double free or corruption') instead of raising MemoryError. Inputs: reference-written archive with coder 030401 and props ffffffffff / 06ffffffff; structure-aware mutation of the top byte of the PPMd property (thorough tier). The classifier takes the (order, mem) the case's inputs declare and builds a Ppmd7Decoder with them in a child process whose address-space limit is below the declared model; only when the child is aborted is the crash filed under this key. Third-party native code."),
    ("C05", "codec-library/pyppmd-decoder-deadlock",
     "a PPMd folder whose header declares more output than the stream holds (hostile unpack size, damaged or truncated stream): py7zr has to keep asking the decoder, and pyppmd 1.1.1's "
     "threaded Ppmd7Decoder, asked to decode past the true end, starts worker threads it never joins (one leaked thread per call, then MemoryError) and after some hundreds of such archives "
     "in one interpreter blocks for good in Ppmd7T_decode (main thread and decoder thread both wait for a mutex nobody holds; gdb stack in DESIGN.md). Reproduced without py7zr's loops by "
     "calling decode() after the output is complete. PPMd7 has no end marker and Ppmd7Decoder.eof is also true in the middle of valid streams, so py7zr cannot tell the cases apart. The "
     "runner files a no-progress block under this key only when the innermost Python frame is PpmdDecompressor.decompress and the input was not a valid archive."),
    ("C05", "codec-library/pyppmd-decoder-thread-leak",
     "same pyppmd defect as codec-library/pyppmd-decoder-deadlock, seen before the block sets in: every session on a PPMd folder that declares more output than its stream holds leaves one "
     "native thread behind (counted at the library boundary: the thread appears during Ppmd7Decoder.decode() and never ends). Key with suffix /valid-archive is not listed: a leak on a valid "
     "archive would be a new finding."),
    ("C04", "codec-library/pyppmd-decoder-deadlock", "same pyppmd defect as C05, reachable with a corrupted PPMd stream."),
    ("C13", "codec-library/pyppmd-decoder-deadlock", "same pyppmd defect as C05, reachable with a damaged PPMd stream."),
    ("C15", "codec-library/pyppmd-decoder-deadlock", "same pyppmd defect as C05, reachable with a truncated PPMd archive."),
]

# commit subject (exact) -> (properties, what failed)
FIXED = {
    "fix: decompression loops stop with an error instead of spinning when the stream yields no more data": (["C05", "C12", "C04"], "extractall twice without reset(), testzip() after a decoding call, and damaged streams spun forever in Worker.decompress"),
    "fix: testzip() gives a verdict at any point of a read session and for archives opened from a stream": (["C12", "C04"], "testzip() after extract/extractall re-used exhausted decoders; InternalError for multi-folder archives opened from a stream"),
    "fix: terminate Brotli streams when a folder is flushed": (["C07", "C01"], "Brotli streams were never finished; independent decoders reject them as truncated"),
    "fix: archiveinfo() method names include Delta and Brotli coders": (["C10"], "archiveinfo().method_names omitted Delta and Brotli coders"),
    "fix: archiveinfo() and test() work on archives without packed streams": (["C10", "C12"], "archiveinfo()/test() raised TypeError/AttributeError on empty or directory-only archives"),
    "fix: size of partially defined time/attribute properties counts one bit per file": (["C17", "C08"], "partially defined time/attribute vectors were re-serialised with a wrong property size"),
    "fix: 'py7zr c -v SIZE' accepts a size without unit suffix": (["C19"], "'py7zr c -v 10000' died with KeyError: ''"),
    "fix: check_archive_path rejects names that leave the root and re-enter the probe directory": (["C16"], "writestr/writef accepted '../dafj08sajfa/x' and stored a name starting with '..'"),
    "fix: keep implied substream sizes so that appending to a non-solid archive stays aligned": (["C08", "C07"], "append to a one-stream-per-folder archive shifted the substream sizes of the new folder"),
    "fix: extraction to disk accepts members whose modification time is undefined": (["C06"], "extractall(path) raised TypeError for members without mtime"),
    "fix: read partially defined CRC vectors as the format stores them": (["C06"], "partially defined folder/substream CRC vectors made the reader fail with 'end id expected'"),
    "fix: errors raised in worker processes (mp=True) reach the caller": (["C13", "C04"], "with mp=True a CRC error in a worker process was lost: damaged archive extracted 'successfully' with wrong bytes"),
    "fix: symlink members are checked against the links already extracted, not only lexically": (["C03"], "links 'a -> .' and 'a/b -> ..' let a later member 'b/x' be written outside the destination"),
    "fix: a member name that reads as an absolute path once its './' marker is removed no longer escapes extraction into the current directory": (["C03"], "extractall() without a destination: a directory member named './/<absolute path>' was created at that absolute path (get_sanitized_output_path returned the marker-stripped name, not the path it had checked). Reported by a seeding sub-agent as present in the unmodified tree; the check had no './/abs' names. Names added; reproduced on the pre-fix tree"),
    "fix: a regular or empty file member replaces a link left at its output path instead of being written through it": (["C03"], "link 'a -> b/../x' (passes the lexical check while 'b' does not exist), link 'b -> .', file './a': the file was written through the link and created/truncated <parent>/x. Reported by a seeding sub-agent; the check tried every archive under one destination configuration only and its 3-entry alphabet had no second spelling of a name. Respelled alphabet added; reproduced on the pre-fix tree"),
    "fix: file times and modes are applied only to paths that still resolve inside the destination": (["C03"], "file 'b', link './b -> a/..', link 'a -> .': the post-extraction utime/chmod pass followed the link that replaced 'b' and re-timed and re-moded the parent of the destination. Reported by a seeding sub-agent; same gap in the check as above; reproduced on the pre-fix tree"),
    "fix: close() waits until the progress reporter has delivered every queued event": (["C18"], "close() joined the reporter for one second and raised InternalError: a handler blocking 20-60 ms per event on a 6..60-member archive made a successful extraction fail in close(), with events delivered after close() had returned. The check's handlers blocked 0-3 ms only. Reported by a bug-hunting sub-agent working on the unmodified tree with only the property text; reproduced by me; the check was widened until it reports the defect on the pre-fix tree."),
    "fix: a second extraction with a callback on the same object no longer shares the event queue with the first reporter": (["C18"], "extractall(cb1); reset(); extractall(cb2): two reporter threads drained one queue, events of the second extraction were split at random between the callbacks, close() ended one thread only. The check ran one extraction per object. Reported by a bug-hunting sub-agent working on the unmodified tree with only the property text; reproduced by me; the check was widened until it reports the defect on the pre-fix tree."),
    "fix: an extraction without a callback queues no progress events": (["C18"], "'pre'/'post' were queued unconditionally; the next extraction with a callback on that object reported pre, post, pre, ... or a stray pre, post after its own post. Reported by a bug-hunting sub-agent working on the unmodified tree with only the property text; reproduced by me; the check was widened until it reports the defect on the pre-fix tree."),
    "fix: progress events of mp=True extraction reach the callback": (["C18", "C13"], "mp=True: the child processes put their events into their own copies of the in-process queue; the callback saw only pre and post. Reported by a bug-hunting sub-agent working on the unmodified tree with only the property text; reproduced by me; the check was widened until it reports the defect on the pre-fix tree."),
    "fix: recursive extraction selects members beneath a named directory, not every name that starts with the same characters": (["C09"], "recursive=True matched targets with a bare startswith(): absent names 'al', 'dir/be', '' selected 'alpha.txt', 'dir/beta.txt', everything. The check's absent names shared no leading characters with members. Reported by a bug-hunting sub-agent working on the unmodified tree with only the property text; reproduced by me; the check was widened until it reports the defect on the pre-fix tree."),
    "fix: a member stored with a trailing slash can be selected by name": (["C09"], "directories stored as 'name/' (other writers) could not be selected: the slash was stripped from the target only. Reported by a bug-hunting sub-agent working on the unmodified tree with only the property text; reproduced by me; the check was widened until it reports the defect on the pre-fix tree."),
    "fix: extract(targets, recursive=None) applies the target filter": (["C09"], "recursive=None (advertised Optional[bool]) disabled the filter: every member extracted even for an empty target list. Reported by a bug-hunting sub-agent working on the unmodified tree with only the property text; reproduced by me; the check was widened until it reports the defect on the pre-fix tree."),
    "fix: extraction into a writer factory creates no directory on disk": (["C09"], "extract(path=P, targets=T, factory=F) created P on disk. Reported by a bug-hunting sub-agent working on the unmodified tree with only the property text; reproduced by me; the check was widened until it reports the defect on the pre-fix tree."),
    "fix: member names are judged with the backslash as a separator, as every reader takes it": (["C16"], "writestr/writef accepted '\\\\etc\\\\passwd' and '..\\\\..\\\\x' (read back as '/etc/passwd', '../../x'); write()/writeall() stored files named '\\\\abs.txt', 'c:\\\\win.txt' so that they read back as '/abs.txt', '/win.txt'. The check's alphabet had no backslash. Reported by a bug-hunting sub-agent working on the unmodified tree with only the property text; reproduced by me; the check was widened until it reports the defect on the pre-fix tree."),
    "fix: names that the name table cannot hold are refused when the member is added": (["C16", "C15"], "names with NUL or >= 65536 UTF-16 units were accepted and read back as two members, the second absolute; a lone surrogate (undecodable file name) was accepted and made close() fail before any header was written, losing the session. Reported by a bug-hunting sub-agent working on the unmodified tree with only the property text; reproduced by me; the check was widened until it reports the defect on the pre-fix tree."),
    'fix: a symbolic link can be written after members that have no source path': (['C02', 'C08'], 'write(<symlink>) after writestr()/writef() or in append mode died with AttributeError in _find_link_target(): writeall() of a tree with links always failed in append mode. Noticed by a bug-hunting sub-agent as an aside; the check wrote trees into fresh archives only. Reported by a bug-hunting sub-agent working on the unmodified tree with only the property text; reproduced by me; the check was widened until it reports the defect on the pre-fix tree.'),
    "fix: an archive created with mode 'x' gets its header": (['C01'], "close() flushed only modes 'w' and 'a': every archive created with mode 'x' stayed a 32-byte placeholder. Noticed by a bug-hunting sub-agent as an aside; the check had never used mode 'x'. Reported by a bug-hunting sub-agent working on the unmodified tree with only the property text; reproduced by me; the check was widened until it reports the defect on the pre-fix tree."),
    'fix: the target of a link member is checked against its CRC before the link is made': (['C15', 'C04'], 'link members were created without the CRC check: after a source had failed k bytes into a write(), extractall() succeeded and made links with wrong targets. Reported by a bug-hunting sub-agent working on the unmodified tree with only the property text; reproduced by me; the check was widened until it reports the defect on the pre-fix tree.'),
    'fix: a source whose timestamps do not fit a FILETIME is refused by write(), not by close()': (['C15'], 'an mtime before 1601 made close() fail with struct.error: no header written, session lost, append destroyed the existing archive. Reported by a bug-hunting sub-agent working on the unmodified tree with only the property text; reproduced by me; the check was widened until it reports the defect on the pre-fix tree.'),
    'fix: writef() of a file object positioned past its end is refused': (['C15'], 'negative size: member registered but not archived; the next write archived the stale entry and read the old file object again; archive unreadable. Reported by a bug-hunting sub-agent working on the unmodified tree with only the property text; reproduced by me; the check was widened until it reports the defect on the pre-fix tree.'),
    'fix: write() of a FIFO, socket or device node is refused before the member is registered': (['C15'], 'write(<fifo>) raised KeyError after half-registering the member; close() failed, all members lost, append mode destroyed the existing archive. Reported by a bug-hunting sub-agent working on the unmodified tree with only the property text; reproduced by me; the check was widened until it reports the defect on the pre-fix tree.'),
    'fix: an append session spoils the start header before it overwrites the old header': (['C14'], "append sessions overwrite the old header while the old signature header stays valid and py7zr-written packed headers carry no CRC: with the Copy chain and data-less members the new header lands exactly on the old one and crash states opened with wrong member lists (10 of 24 sessions). The check's append sessions always added packed bytes. Reported by a bug-hunting sub-agent working on the unmodified tree with only the property text; reproduced by me; the check was widened until it reports the defect on the pre-fix tree."),
    'fix: write calls on an archive opened for reading are refused': (['C12'], "write()/writef()/writestr()/writeall() on a mode 'r' session over a writable stream returned normally and overwrote the archive's bytes. Reported by a bug-hunting sub-agent working on the unmodified tree with only the property text; reproduced by me; the check was widened until it reports the defect on the pre-fix tree."),
    'fix: members whose names are different spellings of one output path are kept apart like members with equal names': (['C12', 'C13', 'C03'], "'a.txt' and 'x/../a.txt' in two folders were written to one file by two workers at once: result differed from run to run, sometimes neither member. Reported by a bug-hunting sub-agent working on the unmodified tree with only the property text; reproduced by me; the check was widened until it reports the defect on the pre-fix tree."),
    'fix: the error a multi-folder extraction or testzip() reports no longer depends on which worker fails first': (['C12', 'C13'], 'several damaged folders: testzip() by file name named a different member from run to run (shared exception queue, first entry wins). Reported by a bug-hunting sub-agent working on the unmodified tree with only the property text; reproduced by me; the check was widened until it reports the defect on the pre-fix tree.'),
    'fix: extraction refuses a member whose output path is the archive being read': (['C12'], 'an archive holding a member with its own file name, extracted into its own directory, was overwritten, replaced by a link or truncated by the read session. Reported by a bug-hunting sub-agent working on the unmodified tree with only the property text; reproduced by me; the check was widened until it reports the defect on the pre-fix tree.'),
    'fix: directory members are checked against the links on disk like files and links': (['C03'], 'extract(T1); reset(); extract(T2) on one object: a directory member under links made by the first call was created outside the destination. The check had no multi-call histories. Reported by a bug-hunting sub-agent working on the unmodified tree with only the property text; reproduced by me; the check was widened until it reports the defect on the pre-fix tree.'),
    'fix: folders of an archive that holds link members are extracted one after another': (['C03', 'C13'], "parallel path: the containment check of a member is check-then-act; with 'b -> a/..', 'a -> .' and file 'b/b' in three folders another worker's symlink_to() re-pointed the path between check and open(): file created in the parent of the destination (0.3-1 % of free runs). The check now drives the workers with the controlled scheduler (parked at mkdir/open/symlink, released in random order) and hits it deterministically. Reported by a bug-hunting sub-agent working on the unmodified tree with only the property text; reproduced by me; the check was widened until it reports the defect on the pre-fix tree."),
    "fix: the packed header carries its CRC": (["C04", "C14"], "py7zr-written archives stored no CRC for the packed header: a flipped bit in a name that LZMA2 had stored uncompressed (CJK names), or in an AES-only encrypted header, delivered the original bytes under another name with test() True. The check's corpus had compressible ASCII names only; an earlier alarm of this kind on a *reference-written* archive without header CRC had been (rightly) ruled outside the quantifier, which hid that py7zr's own writer omits the CRC. Reported by a bug-hunting sub-agent working on the unmodified tree with only the property text; reproduced by me; the check was widened until it reports the defect on the pre-fix tree."),
    "fix: mp=True extraction fails when a worker process dies": (["C04", "C13"], "a worker process killed by a signal inside a codec library reported nothing; extractall() returned normally with members of that folder empty. Reported by a bug-hunting sub-agent working on the unmodified tree with only the property text; reproduced by me; the check was widened until it reports the defect on the pre-fix tree."),
    "fix: every extracted entry is checked against the links already on disk, not only link targets": (["C03"], "dangling link 'b -> a/..' followed by 'a -> .' made a later member 'a/b/c' land outside the destination (found by the thorough tier's random 4-entry archives)"),
    "fix: test() stops reading at the end of the file": (["C05"], "test() iterated (declared pack size / block size) times over an exhausted file"),
    "fix: reject a file count the header cannot possibly describe": (["C05"], "41-byte archive declaring 2^31 files allocated one record per declared file"),
    "fix: do not feed the AES block padding to the next decoder": (["C01"], "Brotli+7zAES archives could not be read back (padding passed to the Brotli decoder)"),
    "fix: read the whole header when it straddles a volume boundary": (["C01"], "archives with small volumes could not be read through MultiVolume ('invalid header data')"),
    "fix: AES decryption buffers input shorter than one cipher block": (["C01"], "short read at a volume boundary made AES decryption fail ('Data must be padded to 16 byte boundary')"),
    "fix: an empty intermediate block is not passed on as end of stream while packed input remains": (["C01"], "PPMd+AES member read through MultiVolume was corrupted by a zero byte injected after a short read"),
    "fix: testzip() reports damage detected by a folder level CRC": (["C04"], "testzip() returned None (no damage) when the mismatch was found through a folder level CRC"),
    "fix: keep the EmptyFile vector when a header is written again": (["C17", "C08"], "EmptyFile vector dropped on re-serialisation: zero-length files of a foreign archive became directories after append"),
    "fix: entries without attribute word are directories when the format says so": (["C06"], "directory entries without attribute word were listed and extracted as empty files"),
    "fix: packed streams are located at PackPos, not directly after the signature header": (["C06"], "PackPos ignored: archives whose data does not start at offset 32 failed to extract"),
    "fix: compare the folder CRC once the whole folder has been decoded, not when the input is exhausted": (["C06"], "solid folders with folder-level CRC failed with CrcError (premature comparison)"),
    "fix: folders without substreams are stepped over when members are mapped to folders": (["C06", "C08"], "folders with zero substreams (py7zr writes them for directory-only sessions) broke member mapping and extraction"),
    "fix: members of a folder need not be adjacent in the file list": (["C06"], "empty entries interleaved with data files in a multi-folder archive: bytes delivered under the wrong name"),
    "fix: accept the one-byte method ids of the branch filters": (["C06"], "branch filters under 7-Zip's short ids (04..09) rejected as unsupported"),
    "fix: write only the defined substream CRCs": (["C08", "C07"], "append to an archive without member CRCs wrote undefined CRC words: header unreadable"),
    "fix: appending only directories or empty entries to an archive no longer fails in flush": (["C08"], "append session writing no stream raised TypeError in flush_archive and left no valid header"),
    "fix: a write call whose source cannot be stored does not leave a half-registered member": (["C15"], "source failing with EACCES/EIO left a half-registered member: archive unreadable after close, next write retried the failed source"),
    "fix: Deflate, Deflate64, ZStandard and Brotli decoders return output in bounded pieces": (["C20", "C05"], "Deflate/Deflate64/ZStandard/Brotli decoders ignored max_length: 1 GiB of zeros peaked at about 3 GiB RSS"),
    "fix: appending to an archive without packed streams keeps its members": (["C08"], "append to a directory-only archive lost the old members / raised IndexError"),
}


def main():
    repo = os.environ.get("VERIF_REPO", "/repo")
    log = subprocess.run(["git", "-C", repo, "log", "--format=%h\t%s"], capture_output=True, text=True).stdout.splitlines()
    by_subject = {l.split("\t", 1)[1]: l.split("\t", 1)[0] for l in log if "\t" in l}
    out = [{"property": p, "key": k, "status": "known", "what": w} for p, k, w in KNOWN]
    missing = []
    for subj, (props, what) in FIXED.items():
        h = by_subject.get(subj)
        if h is None:
            missing.append(subj)
            continue
        for p in props:
            out.append({"property": p, "status": "fixed", "commit": h, "subject": subj, "what": what, "line": "fixed: property=%s %s %s" % (p, h, what)})
    unlisted = [s for s in by_subject if s.startswith("fix:") and s not in FIXED]
    doc = {"comment": "status=known: genuine defects recorded rather than repaired; the key is the mechanism signature produced by the check's classifier (glob patterns allowed), never a hash, seed or random value. "
                      "status=fixed: repaired by the named fix: commit in /repo; fixed entries suppress nothing. This file is never written at run time.",
           "findings": out}
    with open(os.path.join(ROOT, "known_findings.json"), "w") as f:
        json.dump(doc, f, indent=1)
    print("known=%d fixed=%d missing=%r unlisted=%r" % (len(KNOWN), len(out) - len(KNOWN), missing, unlisted))


if __name__ == "__main__":
    main()
