#!/usr/bin/env python3
"""tools/keepseed.py <worktree> <seed-name> <property> <checks-that-catch,comma> -- copies patch/demo/notes into seeded/<name>/ with meta.json"""
import json, os, shutil, subprocess, sys
wt, name, prop, caught = sys.argv[1:5]
dst = os.path.join(os.path.dirname(os.path.dirname(os.path.abspath(__file__))), "seeded", name)
os.makedirs(dst, exist_ok=True)
patch = subprocess.run(["git", "-C", wt, "diff", "--", "py7zr"], capture_output=True, text=True).stdout
open(os.path.join(dst, "patch.diff"), "w").write(patch)
for fn in ("demo.py", "notes.md"):
    p = os.path.join(wt, "seed", fn)
    if os.path.exists(p):
        shutil.copy(p, os.path.join(dst, fn))
logdir = "/tmp/vf-seed/" + name
ran = {}
for fn in sorted(os.listdir(logdir)) if os.path.isdir(logdir) else []:
    if fn.startswith("check_"):
        lines = [l for l in open(os.path.join(logdir, fn)).read().splitlines() if l.startswith(("VIOLATION", "INCONCLUSIVE")) or ": held" in l or ": violated" in l]
        ran[fn[6:-4]] = [l[:300].replace(logdir, "<scratch>") for l in lines[:4]]
notes = open(os.path.join(dst, "notes.md")).read() if os.path.exists(os.path.join(dst, "notes.md")) else ""
meta = {
    "property": prop,
    "origin": "independent sub-agent given only the property text and a scratch worktree",
    "base_commit": subprocess.run(["git", "-C", wt, "rev-parse", "HEAD"], capture_output=True, text=True).stdout.strip(),
    "needs_to_manifest": sys.argv[5] if len(sys.argv) > 5 else "",
    "confirmed": {"test_suite_with_patch": "335 passed", "demo_with_patch": "exit 1", "demo_without_patch": "exit 0",
                  "how": "tools/seedtest.sh in a scratch worktree outside /repo and /verif"},
    "checks_run_against_it": ran,
    "caught_by": [c for c in caught.split(",") if c],
}
json.dump(meta, open(os.path.join(dst, "meta.json"), "w"), indent=1)
print("kept", dst)
